(** C05 — every storage backend behaves like one dictionary of memoized calls.
    Statements only. The filesystem / memory data-source stacks are tied to the dictionary by
    differential execution (harness/c05.py); what is proved here, for every history, budget and
    size assignment, is that putting the write-through memory cache in front of a
    dictionary-like store changes no answer. *)
From Coq Require Import List ZArith String Bool.
From Memento Require Import Base.Strs Storage.Cache Storage.Spec Storage.Layer Storage.LayerProofs
  Gen.SourceFacts Gen.FactsCache.
Import ListNotations.
Open Scope Z_scope.

(** names that are prefixes of each other / versions '1' vs '10' never capture each other *)
Theorem C05_prefix_scope : forall q q' h,
  has_slash q = false -> has_slash q' = false ->
  String.prefix (q ++ "/") (q' ++ "/" ++ h) = String.eqb q q'.
Proof. exact prefix_scope. Qed.
Print Assumptions C05_prefix_scope.

(** reads return the last value written, forgetting removes exactly its scope, listings are
    exact, nothing forgotten reappears: all of this is "answers like [drun]" *)
Theorem C05_cache_layer_refines_dict : forall cf nsz,
  p_evict_first cf = true -> p_clear_ref cf = true ->
  forall ops s, Forall wfop ops -> coh s -> lrun cf nsz s ops = drun (ld s) ops.
Proof. exact cache_layer_refines_dict. Qed.
Print Assumptions C05_cache_layer_refines_dict.

(** ... instantiated with what the source says now (Gen/SourceFacts.v, regenerated every run) *)
Theorem C05_cache_layer_refines_dict_current_source : forall nsz b ops,
  Forall wfop ops -> lrun current_pcfg nsz (linit b) ops = drun dempty ops.
Proof. exact current_source_cache_transparent. Qed.
Print Assumptions C05_cache_layer_refines_dict_current_source.

(** the dictionary itself: read-your-write and exact forgetting, as sanity statements *)
Theorem C05_read_last_write : forall d k m v sz wr sz' wr',
  snd (dstep (fst (dstep d (BMemoize k m v sz wr))) (BReadResult k sz' wr')) = BVal (Some v).
Proof. exact dict_read_last_write. Qed.
Print Assumptions C05_read_last_write.

Theorem C05_forget_call_exact : forall d k k',
  klookup k' (calls (fst (dstep d (BForgetCall k)))) = if ckey_eqb k' k then None else klookup k' (calls d).
Proof. exact dict_forget_call_exact. Qed.
Print Assumptions C05_forget_call_exact.

Theorem C05_forget_fn_exact : forall d qn k',
  klookup k' (calls (fst (dstep d (BForgetFn qn)))) = if String.eqb (fst k') qn then None else klookup k' (calls d).
Proof. exact dict_forget_fn_exact. Qed.
Print Assumptions C05_forget_fn_exact.

(** a served read touches no store (C06's "keep being served without touching the store") *)
Theorem C05_cached_read_touches_no_store : forall cf nsz s k sz wr e,
  lookup (ck k) (tbl (lc s)) = Some e -> ehas e = true ->
  snd (lstep cf nsz s (BReadResult k sz wr)) = false /\
  snd (fst (lstep cf nsz s (BReadResult k sz wr))) = BVal (Some (evalue e)).
Proof. exact cached_read_touches_no_store. Qed.
Print Assumptions C05_cached_read_touches_no_store.

(** non-vacuity: a coherent non-trivial state exists and the theorem's premises hold of a
    history that exercises eviction, prefix names and forgetting *)
Example C05_witness :
  let cf := {| p_evict_first := true; p_clear_ref := true |} in
  let k1 := ("m:f#1", "aa")%string in let k2 := ("m:f#10", "aa")%string in let k3 := ("m:f1#1", "bb")%string in
  let ops := [BMemoize k1 1 11 60 NoWeak; BMemoize k2 2 22 60 Weak; BMemoize k3 3 33 60 NoWeak;
              BReadResult k1 60 NoWeak; BForgetFn "m:f#1"; BIsMemoized k2; BListFns] in
  Forall wfop ops /\ lrun cf 16 (linit 128) ops = drun dempty ops /\
  drun dempty ops = [BNone; BNone; BNone; BVal (Some 11); BNone; BBool true; BFns ["m:f#10"; "m:f1#1"]%string].
Proof. cbv zeta. split; [repeat constructor|]. vm_compute. auto. Qed.
