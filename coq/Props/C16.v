(** C16 — context arguments key results, flow to nested calls, stay out of parameters.
    Statements only (model Runner/Run.v: the effective context is the second component of every
    key; an edge either inherits the caller's effective context or overrides it entirely). *)
From Coq Require Import List Arith Bool.
From Memento Require Import Runner.Run Runner.RunProofs.
Import ListNotations.

(** nested calls inherit the caller's context arguments unless the call attaches its own, which
    then replace them entirely ([Some 0] = the explicit empty override); this is what is recorded *)
Theorem C16_context_flows : forall p, WF p -> forall f s id ctx,
  id < f -> StoreOK p s ->
  einv (snd (run p f s id ctx)) = map (fun kc => (fst kc, eff_ctx ctx (snd kc))) (nkids (p id)).
Proof. exact context_flows. Qed.
Print Assumptions C16_context_flows.

(** results are stored and served per (call, context): what a call under one context stores can
    only be found under that context *)
Theorem C16_context_is_part_of_the_key : forall id c1 c2 (e : entry) s,
  c1 <> c2 -> slookup (id, c2) (((id, c1), e) :: s) = slookup (id, c2) s.
Proof.
  intros id c1 c2 e s H. rewrite slookup_cons.
  destruct (key_eqb_spec (id, c2) (id, c1)) as [E|]; [inversion E; congruence|reflexivity].
Qed.
Print Assumptions C16_context_is_part_of_the_key.

(** a call under a context is transparent and served from the store the second time *)
Theorem C16_served_per_context : forall p, WF p -> forall f s id ctx,
  id < f -> StoreOK p s ->
  let '(o, s', _, m) := run p f s id ctx in run p f s' id ctx = (o, s', [], m).
Proof. exact second_call_runs_nothing. Qed.

(** the value computed does not depend on the context (bodies never receive it), only keys do *)
Example C16_witness :
  let p := table [(1, {| nfn := 1; nfails := false; nbatch := false; nkids := [] |});
                  (2, {| nfn := 2; nfails := false; nbatch := false; nkids := [(1, None); (1, Some 0); (1, Some 7)] |})] in
  let r1 := run p 3 [] 2 5 in
  einv (snd r1) = [(1, 5); (1, 0); (1, 7)] /\ fst (fst (fst r1)) = Val 5 /\
  snd (fst (run p 3 (snd (fst (fst r1))) 2 6)) = [(2, 6); (1, 6)] /\
  snd (fst (run p 3 (snd (fst (fst r1))) 2 5)) = [].
Proof. vm_compute. repeat split; reflexivity. Qed.
