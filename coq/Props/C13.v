(** C13 — the in-process version cache is coherent with a from-scratch computation.
    Statements only (model Version/VCache.v, proofs Version/VCacheProofs.v). *)
From Coq Require Import List Arith Bool.
From Memento Require Import Version.Rules Version.RulesProofs Version.Stale Version.StaleProofs Version.VCache Version.VCacheProofs Gen.SourceFacts Gen.FactsC13.
Import ListNotations.

(** if none of the rules collected in an earlier world observes a change (value of a variable,
    identity of a plain or memento function, definedness of a name), the from-scratch version
    of the present world is the earlier one *)
Theorem C13_unchanged_rules_same_version : forall K w0 w f,
  (forall t u, ws w0 t = ws w u -> wp w0 t = wp w u) ->      (* a stamp identifies a definition *)
  wp w0 f = wp w f ->
  tracked (wp w0) f ->
  closed (wp w0) (collect (wp w0) K f) = true -> closed (wp w) (collect (wp w) K f) = true ->
  changed true K w0 w f = false ->
  ver K w0 f = ver K w f.
Proof. exact unchanged_same_ver. Qed.
Print Assumptions C13_unchanged_rules_same_version.

(** every history of definitions, redefinitions, rebindings, aliasings and queries: each query
    answers with the version computed from scratch for the world as it stands *)
Theorem C13_cache_coherent : forall K es st, J K st -> admissible K st es ->
  Forall (fun r => snd (fst r) = Some (snd r)) (vrun true K st es).
Proof. exact cache_coherent. Qed.
Print Assumptions C13_cache_coherent.

Theorem C13_initial_state_ok : forall K, J K vinit.
Proof. exact J_init. Qed.

(** comparing only "still a memento function" is not enough ... *)
Theorem C13_no_identity_refuted :
  let es := [Define 0 (mk_m 10 []); Define 1 (mk_m 11 []); Alias 2 0; Define 3 (mk_m 12 [2]); Query 3; Alias 2 1; Query 3] in
  (exists a b v, vrun false 8 vinit es = [(3, Some a, a); (3, Some b, v)] /\ b <> v) /\
  Forall (fun r => snd (fst r) = Some (snd r)) (vrun true 8 vinit es).
Proof. exact no_identity_refuted. Qed.

(** ... and the current source compares identities, and computes the version of an instance that has no rules *)
Theorem C13_current_source_compares_identity : km_identity = Some true.
Proof. exact km_identity_ok. Qed.
Theorem C13_current_source_ruleless_instance_recomputes : ruleless_instance_recomputes = Some true.
Proof. exact ruleless_instance_recomputes_ok. Qed.

(** the model's version is a function of the world as it is NOW (code, defaults, variable values); the
    implementation's rule for a memento function must therefore use that function's current code hash,
    which covers the values of its default parameters — objects that can be mutated after the definition
    (before fcabd34 the hash cached at definition time was used) *)
Theorem C13_current_source_refreshes_code_hash : code_hash_refreshed = Some true.
Proof. exact code_hash_refreshed_ok. Qed.

(** a history in which the cache is used, invalidated by a variable, by a redefinition of a helper, and by a late definition *)
Example C13_witness :
  let v n := {| s_kind := SVar (Some n); s_code := 0; s_defaults := 0; s_refs := [] |} in
  let h c := {| s_kind := SPlain true; s_code := c; s_defaults := 0; s_refs := [0] |} in
  let es := [Define 0 (v 1); Define 1 (h 5); Define 2 (mk_m 9 [1; 4]); Query 2; Query 2; Define 0 (v 2); Query 2; Define 1 (h 6); Query 2; Define 4 (v 7); Query 2] in
  admissible 12 vinit es /\ length (vrun true 12 vinit es) = 5 /\
  Forall (fun r => snd (fst r) = Some (snd r)) (vrun true 12 vinit es) /\
  NoDup (map snd (tl (vrun true 12 vinit es))).
Proof.
  split; [|split; [reflexivity|split; [vm_compute; repeat constructor|]]].
  - cbn [admissible]. repeat split; try exact I; try (vm_compute; reflexivity);
      apply tracked_all; intros u; do 6 (destruct u as [|u]; [vm_compute; reflexivity|]); vm_compute; reflexivity.
  - vm_compute. repeat constructor; simpl; intuition discriminate.
Qed.
