(** C09 — concurrent callers: single flight, under every schedule. Statements only
    (model Runner/Threads.v, proofs Runner/ThreadsProofs.v).
    A schedule is any list of thread ids; a step of a blocked or finished thread is a stutter,
    so the quantification over [sched : list nat] covers every interleaving of any number of
    threads calling any keys. [m0] is what is memoized beforehand (cold / warm store). *)
From Coq Require Import List Arith Bool ZArith.
From Memento Require Import Storage.Cache Storage.CacheProofs Gen.SourceFacts Gen.FactsThreads Runner.SharedTable.
From Memento Require Import Runner.Threads Runner.ThreadsProofs.
Import ListNotations.
Open Scope nat_scope.

Theorem C09_single_flight : forall m0 calls sched,
  let s := run true (init m0 calls) sched in
  (forall k, execs s k <= 1) /\
  (forall k, m0 k = true -> execs s k = 0) /\
  (all_done s -> forall t k, nth_error calls t = Some k -> execs s k = if m0 k then 0 else 1).
Proof. exact single_flight. Qed.
Print Assumptions C09_single_flight.

(** mutual exclusion per call, at every point of every schedule *)
Theorem C09_mutual_exclusion : forall m0 calls sched t t' k p p',
  let s := run true (init m0 calls) sched in
  ths s t = Some (k, p) -> in_cs p = true -> ths s t' = Some (k, p') -> in_cs p' = true -> t = t'.
Proof. intros. eapply mutex; eauto. apply run_inv. Qed.
Print Assumptions C09_mutual_exclusion.

(** progress (flat calls): unless everybody is done somebody can move *)
Theorem C09_flat_calls_deadlock_free_partial : forall m0 calls sched,
  let s := run true (init m0 calls) sched in
  (exists t k p, ths s t = Some (k, p) /\ p <> PDone) -> exists t, enabled s t = true.
Proof. exact flat_calls_deadlock_free. Qed.
Print Assumptions C09_flat_calls_deadlock_free_partial.

(** the look-up inside the mutex is what makes it true ... *)
Theorem C09_no_recheck_refuted :
  exists calls sched, execs (run false (init (fun _ => false) calls) sched) 7 = 2.
Proof. exact no_recheck_refuted. Qed.

(** ... and the source has it (facts regenerated from /repo on every run) *)
Theorem C09_current_source_rechecks_inside_mutex : recheck_inside_mutex = Some true.
Proof. exact recheck_inside_mutex_ok. Qed.

(** shared cache: when every public MemoryCache operation is atomic (it holds the cache's lock —
    source fact), the operations of all threads form ONE sequence, whatever the schedule, and
    the accounting invariant of C06 holds after any sequence of operations *)
Theorem C09_cache_consistent_under_atomic_operations : forall ef b ops,
  (0 <= b)%Z -> Forall op_ok ops -> CacheProofs.Inv (Cache.exec ef (Cache.init b) ops).
Proof. exact exec_inv. Qed.
Print Assumptions C09_cache_consistent_under_atomic_operations.

Theorem C09_current_source_cache_operations_locked : cache_methods_locked = Some true.
Proof. exact cache_methods_locked_ok. Qed.

Example C09_witness :
  let s := run true (init (fun k => Nat.eqb k 9) [7; 7; 9]) (concat (repeat [0; 1; 2; 1] 10)) in
  execs s 7 = 1 /\ execs s 9 = 0 /\ ths s 0 = Some (7, PDone) /\ ths s 1 = Some (7, PDone) /\ ths s 2 = Some (9, PDone).
Proof. vm_compute. auto. Qed.

(** the tables of the in-memory storage backend are shared by the threads without a lock. If the inner
    map of a function is obtained by one indivisible get-or-create step, then under EVERY interleaving
    of any number of memoizations (any functions, any argument hashes) every memento that was added is
    in the table at the end *)
Theorem C09_shared_table_atomic_inserts_keep_everything : forall pre f a post t,
  forallb SharedTable.gentle (pre ++ SharedTable.Add f a :: post) = true ->
  In (SharedTable.GetOrCreate f) pre ->
  SharedTable.has (SharedTable.run t (pre ++ SharedTable.Add f a :: post)) f a = true.
Proof. exact atomic_inserts_keep_everything. Qed.
Print Assumptions C09_shared_table_atomic_inserts_keep_everything.

(** ... and with "test for the key, then assign a fresh map" a schedule of two threads loses a memento *)
Theorem C09_shared_table_check_then_create_refuted :
  let schedule := [SharedTable.Create 7; SharedTable.Add 7 1; SharedTable.Create 7; SharedTable.Add 7 2] in
  SharedTable.has (SharedTable.run [] schedule) 7 1 = false /\ SharedTable.has (SharedTable.run [] schedule) 7 2 = true /\
  SharedTable.has (SharedTable.run [] [SharedTable.GetOrCreate 7; SharedTable.Add 7 1; SharedTable.GetOrCreate 7; SharedTable.Add 7 2]) 7 1 = true.
Proof. exact check_then_create_loses_a_memento_refuted. Qed.

Theorem C09_current_source_memory_backend_inserts_atomically : memstore_atomic_insert = Some true.
Proof. exact memstore_atomic_insert_ok. Qed.
