(** C06 — the memory cache is bounded, least-recently-used, and keeps honest accounts.
    Statements only; each is closed by [exact] of a lemma from Storage/CacheProofs.v.
    [ef : pcfg] carries the source facts about [MemoryCache.put] (Gen/SourceFacts.v: does it
    evict the existing entry before the oversize test; does it drop a stale weak reference);
    every statement holds for all values of them unless it says otherwise. *)
From Coq Require Import List ZArith String Bool.
From Memento Require Import Storage.Cache Storage.CacheProofs Storage.CacheAdmit.
Import ListNotations.
Open Scope Z_scope.

(** Every history of cache operations, every budget, every key set, any length: the usage
    counter never exceeds the budget, equals the sum of the sizes of the resident entries, no
    resident entry is larger than the budget, and an empty cache has usage zero.
    Hypothesis: the size estimator returns non-negative sizes ([op_ok]). *)
Theorem C06_bounded_and_honest : forall ef b ops,
  0 <= b -> Forall op_ok ops ->
  let c := exec ef (init b) ops in
  usage c <= b /\ usage c = total (tbl c) /\
  (forall k e, In (k, e) (tbl c) -> 0 <= esize e <= b) /\
  (tbl c = [] -> usage c = 0).
Proof. exact cache_bounded_and_honest. Qed.
Print Assumptions C06_bounded_and_honest.

(** The structural invariant behind it, for every reachable state. *)
Theorem C06_invariant : forall ef b ops, 0 <= b -> Forall op_ok ops -> Inv (exec ef (init b) ops).
Proof. exact exec_inv. Qed.
Print Assumptions C06_invariant.

(** A result larger than the budget is never resident after its own put (source evicts first),
    and never adds a resident entry (either order). *)
Theorem C06_oversize_never_resident : forall cf k m v sz has wr c,
  p_evict_first cf = true ->
  Inv c -> sz > budget c -> ~ In k (keys (tbl (put cf k m v sz has wr c))).
Proof. exact put_oversize_not_resident. Qed.
Print Assumptions C06_oversize_never_resident.

Theorem C06_oversize_adds_nothing : forall cf k m v sz has wr c,
  Inv c -> sz > budget c ->
  forall x, In x (keys (tbl (put cf k m v sz has wr c))) -> In x (keys (tbl c)).
Proof. exact put_oversize_no_new_entry. Qed.
Print Assumptions C06_oversize_adds_nothing.

(** LRU: a fitting put drops exactly the [n] least recently used entries for the least [n]
    that makes room, keeps every other resident, and makes the new key most recently used. *)
Theorem C06_put_evicts_lru : forall ef k m v sz (has : bool) wr c,
  Inv c -> 0 <= sz <= budget c ->
  let c1 := evict k c in
  exists n, (n <= List.length (lru c1))%nat /\
    lru (put ef k m v sz has wr c) = skipn n (lru c1) ++ [k] /\
    (forall x, In x (keys (tbl (put ef k m v sz has wr c))) <->
               x = k \/ (In x (keys (tbl c1)) /\ ~ In x (firstn n (lru c1)))) /\
    (forall j, (j < n)%nat -> usage (evict_list (firstn j (lru c1)) c1) + sz > budget c) /\
    usage (put ef k m v sz has wr c) <= budget c.
Proof. exact put_evicts_least_recently_used. Qed.
Print Assumptions C06_put_evicts_lru.

(** Recency is refreshed by a served read and by an is-memoized hit, and by nothing else of them:
    the step is exactly [mark_used]. (That a served read touches no store is
    [Backend: cached_read_touches_no_store], Props/C05.v.) *)
Theorem C06_read_refreshes : forall ef c k e,
  lookup k (tbl c) = Some e -> ehas e = true ->
  step ef c (Read k) = (mark_used k c, OVal (evalue e)).
Proof. exact read_hit_refreshes. Qed.
Print Assumptions C06_read_refreshes.

Theorem C06_ismem_refreshes : forall ef c k e,
  lookup k (tbl c) = Some e -> step ef c (IsMem k) = (mark_used k c, OBool true).
Proof. exact ismem_hit_refreshes. Qed.
Print Assumptions C06_ismem_refreshes.

(** Whatever sequence of forget operations covers every resident key empties the cache and
    returns the counter to zero. *)
Theorem C06_forget_returns_to_zero : forall ef c fs,
  Inv c -> Forall (fun o => is_forget o = true) fs ->
  (forall k, In k (keys (tbl c)) -> existsb (forgets k) fs = true) ->
  tbl (exec ef c fs) = [] /\ usage (exec ef c fs) = 0.
Proof. exact forgetting_everything_zeroes. Qed.
Print Assumptions C06_forget_returns_to_zero.

(** Non-vacuity: a concrete reachable state with two residents, one eviction behind it, which
    meets the premises above; and the forget theorem applied to it. *)
Example C06_witness :
  let cf := {| p_evict_first := true; p_clear_ref := true |} in
  let ops := [Put "f#1/a" 1 10 40 true NoWeak; Put "g#1/a" 2 20 40 true Weak;
              Read "f#1/a"; Put "f1#1/a" 3 30 40 true NoWeak]%string in
  let c := exec cf (init 100) ops in
  Forall op_ok ops /\ keys (tbl c) = ["f#1/a"; "f1#1/a"]%string /\ usage c = 80 /\
  lru c = ["f#1/a"; "f1#1/a"]%string /\
  tbl (exec cf c [ForgetFn "f#1"; ForgetCall "f1#1/a"]%string) = [].
Proof.
  cbv zeta. split; [repeat constructor; cbn; Lia.lia|]. vm_compute. auto.
Qed.

(** every admission goes through [put], which first releases the entry the key already has. An
    admission path that skips the release (a batch admission trusting "these calls were just reported
    absent", with a key that occurs twice) charges one resident entry twice and lists it twice in the
    LRU list — exactly what the invariant above excludes *)
Theorem C06_admission_without_release_refuted :
  let c1 := put {| p_evict_first := true; p_clear_ref := true |} "f/1" 1 0 16 false NoWeak (init 100) in
  let bad := admit_without_release "f/1" 1 16 c1 in
  let good := put {| p_evict_first := true; p_clear_ref := true |} "f/1" 1 0 16 false NoWeak c1 in
  usage bad = 32 /\ total (tbl bad) = 16 /\ lru bad = ["f/1"; "f/1"]%string /\
  usage good = 16 /\ total (tbl good) = 16 /\ lru good = ["f/1"]%string.
Proof. exact admit_without_release_refuted. Qed.
