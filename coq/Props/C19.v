(** C19 — read-only and null back-ends never write and never execute. Statements only. *)
From Coq Require Import List ZArith String Bool.
From Memento Require Import Storage.Cache Storage.Spec Storage.Layer Storage.LayerProofs
  Storage.ReadOnly Storage.ReadOnlyProofs Gen.SourceFacts Gen.FactsCache.
Import ListNotations.
Open Scope Z_scope.

(** For every history of operations through a backend opened read-only (with a memory cache of
    any budget in front): what is stored never changes, memoize is skipped silently, forgets
    and metadata writes are rejected, and every read answers as the dictionary does. *)
Theorem C19_readonly_never_writes_and_reads_as_dict : forall cf nsz,
  p_evict_first cf = true -> p_clear_ref cf = true ->
  forall ops s, Forall wfop ops -> coh s ->
  ld (fst (rorun cf nsz s ops)) = ld s /\ snd (rorun cf nsz s ops) = ro_spec (ld s) ops.
Proof. exact readonly_never_writes_and_reads_as_dict. Qed.
Print Assumptions C19_readonly_never_writes_and_reads_as_dict.

Theorem C19_readonly_current_source : forall nsz ops s, Forall wfop ops -> coh s ->
  ld (fst (rorun current_pcfg nsz s ops)) = ld s /\ snd (rorun current_pcfg nsz s ops) = ro_spec (ld s) ops.
Proof. exact readonly_current_source. Qed.
Print Assumptions C19_readonly_current_source.

Theorem C19_null_storage_never_memoized : forall o,
  match o with
  | BIsMemoized _ => nullstep o = BBool false
  | BGetMemento _ => nullstep o = BMem None
  | BListFns => nullstep o = BFns []
  | _ => True
  end.
Proof. exact null_storage_never_memoized. Qed.
Print Assumptions C19_null_storage_never_memoized.

Theorem C19_null_runner_never_executes : forall calls,
  snd (null_runner calls) = 0%nat /\ fst (null_runner calls) = None.
Proof. exact null_runner_never_executes. Qed.
Print Assumptions C19_null_runner_never_executes.

Example C19_witness :
  let cf := {| p_evict_first := true; p_clear_ref := true |} in
  let k := ("m:f#1", "aa")%string in
  let s := fst (fst (lstep cf 16 (linit 100) (BMemoize k 1 11 40 NoWeak))) in
  let ops := [BReadResult k 40 NoWeak; BMemoize k 2 22 40 NoWeak; BForgetCall k; BReadResult k 40 NoWeak; BWriteMeta k "x" 5] in
  Forall wfop ops /\ snd (rorun cf 16 s ops) = [RAns (BVal (Some 11)); RAns BNone; RRejected; RAns (BVal (Some 11)); RRejected]
  /\ ld (fst (rorun cf 16 s ops)) = ld s.
Proof. cbv zeta. split; [repeat constructor|]. vm_compute. auto. Qed.
