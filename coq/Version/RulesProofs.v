(** The collected rule set is exactly reachability (C14); the version does not depend on the
    order in which references are visited (C03). *)
From Coq Require Import List Arith Bool NArith Lia Permutation.
From Memento Require Import Codec.Json Codec.ArgHashProofs Version.Rules.
Import ListNotations.
Open Scope nat_scope.

Lemma rule_eqb_spec a b : reflect (a = b) (rule_eqb a b).
Proof.
  destruct a as [[k o] t], b as [[k' o'] t']. unfold rule_eqb; simpl.
  destruct k, k'; simpl; try (constructor; congruence);
    destruct o as [x|], o' as [y|]; simpl; try (constructor; congruence);
    try (destruct (Nat.eqb_spec x y); simpl; [|constructor; congruence]);
    destruct (Nat.eqb_spec t t'); constructor; congruence.
Qed.

Lemma mem_rule_in r l : mem_rule r l = true <-> In r l.
Proof.
  unfold mem_rule. rewrite existsb_exists. split.
  - intros (x & Hin & E). destruct (rule_eqb_spec r x); [subst; auto|discriminate].
  - intros H. exists r. split; auto. destruct (rule_eqb_spec r r); congruence.
Qed.

Lemma in_add_rule x r l : In x (add_rule r l) <-> x = r \/ In x l.
Proof.
  unfold add_rule. destruct (mem_rule r l) eqn:E.
  - apply mem_rule_in in E. split; [auto|intros [->|H]; auto].
  - rewrite in_app_iff. simpl. intuition.
Qed.

Lemma nodup_add_rule r l : NoDup l -> NoDup (add_rule r l).
Proof.
  intros H. unfold add_rule. destruct (mem_rule r l) eqn:E; auto.
  apply Permutation_NoDup with (l := r :: l); [apply Permutation_cons_append|].
  constructor; auto. intros Hin. apply mem_rule_in in Hin. congruence.
Qed.

Section P.
Variable p : prog.
Variable f : nat.

Inductive Reach : rule -> Prop :=
| R0 : Reach (root_rule f)
| RS r x : Reach r -> In x (succs p r) -> Reach x.

Lemma in_fold_add xs : forall acc x, In x (fold_left (fun acc' y => add_rule y acc') xs acc) <-> In x acc \/ In x xs.
Proof.
  induction xs as [|y ys IH]; intros acc x; simpl; [tauto|].
  rewrite IH, in_add_rule. intuition.
Qed.

Lemma nodup_fold_add xs : forall acc, NoDup acc -> NoDup (fold_left (fun acc' y => add_rule y acc') xs acc).
Proof. induction xs as [|y ys IH]; intros acc H; simpl; auto. apply IH, nodup_add_rule, H. Qed.

Lemma in_outer_fold rs : forall acc x,
  In x (fold_left (fun acc r => fold_left (fun acc' y => add_rule y acc') (succs p r) acc) rs acc)
  <-> In x acc \/ exists r, In r rs /\ In x (succs p r).
Proof.
  induction rs as [|r rs IH]; intros acc x; simpl.
  - split; [auto|intros [H|(r & [] & _)]; auto].
  - rewrite IH, in_fold_add. split.
    + intros [[H|H]|(r' & H1 & H2)]; eauto.
    + intros [H|(r' & [->|H1] & H2)]; eauto.
Qed.

Lemma nodup_outer_fold rs : forall acc, NoDup acc ->
  NoDup (fold_left (fun acc r => fold_left (fun acc' y => add_rule y acc') (succs p r) acc) rs acc).
Proof. induction rs as [|r rs IH]; intros acc H; simpl; auto. apply IH, nodup_fold_add, H. Qed.

Lemma in_sat_step l x : In x (sat_step p l) <-> In x l \/ exists r, In r l /\ In x (succs p r).
Proof. unfold sat_step. apply in_outer_fold. Qed.

Lemma saturate_sound fuel : forall l, (forall x, In x l -> Reach x) -> forall x, In x (saturate p fuel l) -> Reach x.
Proof.
  induction fuel as [|n IH]; intros l Hl x Hx; simpl in Hx; auto.
  apply (IH (sat_step p l)); auto.
  intros y Hy. apply in_sat_step in Hy. destruct Hy as [Hy|(r & Hr & Hy)]; auto.
  eapply RS; eauto.
Qed.

Lemma saturate_mono fuel : forall l x, In x l -> In x (saturate p fuel l).
Proof. induction fuel as [|n IH]; intros l x H; simpl; auto. apply IH. apply in_sat_step. auto. Qed.

Lemma saturate_nodup fuel : forall l, NoDup l -> NoDup (saturate p fuel l).
Proof. induction fuel as [|n IH]; intros l H; simpl; auto. apply IH. unfold sat_step. apply nodup_outer_fold, H. Qed.

Lemma closed_complete l : closed p l = true -> In (root_rule f) l -> forall x, Reach x -> In x l.
Proof.
  intros Hc Hr x Hx. induction Hx as [|r x Hr' IH Hin]; auto.
  unfold closed in Hc. rewrite forallb_forall in Hc. specialize (Hc r IH).
  rewrite forallb_forall in Hc. apply mem_rule_in. apply Hc. exact Hin.
Qed.

(** C14: when the saturation has reached its fixpoint (checked), the collected rules are exactly
    the rules reachable from the function *)
Theorem collect_exact fuel : closed p (collect p fuel f) = true ->
  forall x, In x (collect p fuel f) <-> Reach x.
Proof.
  intros Hc x. split.
  - apply saturate_sound. intros y [<-|[]]. constructor.
  - apply closed_complete; auto. apply saturate_mono. left. reflexivity.
Qed.

Lemma collect_nodup fuel : NoDup (collect p fuel f).
Proof. apply saturate_nodup. constructor; [simpl; tauto|constructor]. Qed.

(** ---- the reference graph over symbols ---- *)

Definition traversable (a : nat) : Prop :=
  match s_kind (p a) with SMemento _ => True | SPlain true => True | _ => False end.

(** functions reached from [f] by following references through memento functions (of any
    package) and plain functions of the package scope *)
Inductive FReach : nat -> Prop :=
| F0 : FReach f
| FS a b : FReach a -> traversable a -> In b (s_refs (p a)) -> traversable b -> FReach b.

Lemma in_succs r x : In x (succs p r) <->
  (fst (fst r) = KM \/ fst (fst r) = KF) /\ exists t, In t (s_refs (p (snd r))) /\ rule_for p (snd r) t = Some x.
Proof.
  unfold succs. destruct r as [[k o] s]; simpl.
  destruct k; simpl; try (split; [tauto|intros [[H|H] _]; discriminate]).
  - rewrite in_flat_map. split.
    + intros (t & Ht & Hx). split; auto. exists t. split; auto. destruct (rule_for p s t); simpl in Hx; [destruct Hx as [<-|[]]; auto|tauto].
    + intros (_ & t & Ht & E). exists t. split; auto. rewrite E. left. reflexivity.
  - rewrite in_flat_map. split.
    + intros (t & Ht & Hx). split; auto. exists t. split; auto. destruct (rule_for p s t); simpl in Hx; [destruct Hx as [<-|[]]; auto|tauto].
    + intros (_ & t & Ht & E). exists t. split; auto. rewrite E. left. reflexivity.
Qed.

Lemma rule_for_shape par t x : rule_for p par t = Some x ->
  snd x = t /\ snd (fst x) = Some par /\
  (fst (fst x) = KM <-> exists e, s_kind (p t) = SMemento e) /\ (fst (fst x) = KF <-> s_kind (p t) = SPlain true).
Proof.
  unfold rule_for. destruct (s_kind (p t)) as [e|[|]|[v|]|]; intros H; inversion H; subst; simpl;
    repeat split; auto; try (intros; discriminate); try (intros (e' & E); discriminate); eauto.
Qed.

Hypothesis Hroot : exists e, s_kind (p f) = SMemento e.

Lemma reach_target_traversable x : Reach x -> (fst (fst x) = KM \/ fst (fst x) = KF) -> traversable (snd x).
Proof.
  intros H. destruct H as [|r x Hr Hin]; intros Hk.
  - simpl. unfold traversable. destruct Hroot as (e & ->). exact I.
  - apply in_succs in Hin. destruct Hin as (_ & t & _ & E).
    destruct (rule_for_shape _ _ _ E) as (-> & _ & E3 & E4). unfold traversable.
    destruct Hk as [Hk|Hk]; [apply E3 in Hk as (e & ->); exact I|apply E4 in Hk; rewrite Hk; exact I].
Qed.

Lemma reach_function_rule x : Reach x -> (fst (fst x) = KM \/ fst (fst x) = KF) -> FReach (snd x).
Proof.
  intros H. induction H as [|r x Hr IH Hin]; intros Hk; [constructor|].
  pose proof (reach_target_traversable x (RS r x Hr Hin) Hk) as Htx.
  apply in_succs in Hin. destruct Hin as (Hkr & t & Ht & E).
  destruct (rule_for_shape _ _ _ E) as (E1 & _). subst t.
  eapply FS; [apply IH; exact Hkr|apply reach_target_traversable; auto|exact Ht|exact Htx].
Qed.

Lemma freach_has_rule b : FReach b -> b = f \/ exists k par, Reach (k, Some par, b) /\ (k = KM \/ k = KF).
Proof.
  intros H. induction H as [|a b Ha IH Hta Hin Htb]; [left; reflexivity|]. right.
  assert (Hra : exists r, Reach r /\ snd r = a /\ (fst (fst r) = KM \/ fst (fst r) = KF)).
  { destruct IH as [->|(k & par & Hr & Hk)].
    - exists (root_rule f). repeat split; [constructor|left; reflexivity].
    - exists (k, Some par, a). repeat split; auto. }
  destruct Hra as (r & Hr & <- & Hkr).
  unfold traversable in Htb.
  destruct (s_kind (p b)) as [e|[|]|v|] eqn:Eb; try contradiction.
  - exists KM, (snd r). split; [|auto]. eapply RS; [exact Hr|]. apply in_succs. split; auto.
    exists b. split; auto. unfold rule_for. rewrite Eb. reflexivity.
  - exists KF, (snd r). split; [|auto]. eapply RS; [exact Hr|]. apply in_succs. split; auto.
    exists b. split; auto. unfold rule_for. rewrite Eb. reflexivity.
Qed.

Lemma in_dedup_nat x l : In x (dedup_nat l) <-> In x l.
Proof.
  induction l as [|y l IH]; simpl; [tauto|].
  destruct (existsb (Nat.eqb y) l) eqn:E.
  - rewrite IH. split; [auto|]. intros [->|H]; auto.
    apply existsb_exists in E as (z & Hz & Ez). apply Nat.eqb_eq in Ez. subst. auto.
  - simpl. rewrite IH. tauto.
Qed.

(** C14: the transitive memento dependencies reported for [f] are exactly the memento
    functions, other than [f], reachable in the reference graph through memento functions and
    plain functions of the package scope *)
Theorem transitive_exact fuel g : closed p (collect p fuel f) = true ->
  (In g (transitive_mfns (collect p fuel f) f) <-> g <> f /\ (exists e, s_kind (p g) = SMemento e) /\ FReach g).
Proof.
  intros Hc. unfold transitive_mfns. rewrite in_dedup_nat, in_flat_map. split.
  - intros ([[k o] t] & Hin & Hx). simpl in Hx. destruct k; try contradiction.
    destruct (Nat.eqb_spec t f) as [->|Hn]; [contradiction|]. destruct Hx as [<-|[]].
    apply (collect_exact fuel Hc) in Hin.
    split; auto. split.
    + inversion Hin as [|r x Hr Hs]; subst; [congruence|].
      apply in_succs in Hs. destruct Hs as (_ & t' & _ & E).
      destruct (rule_for_shape _ _ _ E) as (E1 & _ & E3 & _). simpl in *. rewrite E1. apply (proj1 E3). reflexivity.
    + apply (reach_function_rule (KM, o, t)); auto.
  - intros (Hn & (e & Hk) & Hfr). apply freach_has_rule in Hfr. destruct Hfr as [->|(k & par & Hr & _)]; [congruence|].
    assert (k = KM).
    { inversion Hr as [|r x Hr' Hs]; subst. apply in_succs in Hs. destruct Hs as (_ & t' & _ & E).
      unfold rule_for in E. destruct (rule_for_shape _ _ _ E) as (E1 & _). simpl in E1. subst t'.
      rewrite Hk in E. inversion E. reflexivity. }
    subst k. exists (KM, Some par, g). split; [apply (collect_exact fuel Hc); exact Hr|].
    simpl. destruct (Nat.eqb_spec g f); [congruence|]. left. reflexivity.
Qed.

(** the direct ones are exactly those named in the function's own body *)
Theorem direct_exact fuel g : closed p (collect p fuel f) = true ->
  (In g (direct_mfns (collect p fuel f) f) <-> g <> f /\ (exists e, s_kind (p g) = SMemento e) /\ In g (s_refs (p f))).
Proof.
  intros Hc. unfold direct_mfns. rewrite in_dedup_nat, in_flat_map. split.
  - intros ([[k o] t] & Hin & Hx). destruct k; try contradiction. destruct o as [par|]; [|contradiction].
    destruct (Nat.eqb_spec par f) as [->|]; simpl in Hx; [|contradiction].
    destruct (Nat.eqb_spec t f) as [->|Hn]; simpl in Hx; [contradiction|]. destruct Hx as [<-|[]].
    apply (collect_exact fuel Hc) in Hin. inversion Hin as [|r x Hr Hs]; subst.
    apply in_succs in Hs. destruct Hs as (_ & t' & Ht & E).
    destruct (rule_for_shape _ _ _ E) as (E1 & E2 & E3 & _). simpl in *. subst t'.
    assert (E2' : snd r = f) by congruence. rewrite E2' in Ht.
    split; [exact Hn|]. split; [apply (proj1 E3); reflexivity|exact Ht].
  - intros (Hn & (e & Hk) & Hin). exists (KM, Some f, g). split.
    + apply (collect_exact fuel Hc). eapply RS; [constructor|]. apply in_succs. split; [left; reflexivity|].
      exists g. split; auto. unfold rule_for. rewrite Hk. reflexivity.
    + simpl. rewrite Nat.eqb_refl. destruct (Nat.eqb_spec g f); [congruence|]. left. reflexivity.
Qed.

End P.

(* ---------- C03: the version does not depend on the order in which references are visited ---------- *)

Definition same_up_to_order (p q : prog) : Prop :=
  forall id, s_kind (p id) = s_kind (q id) /\ s_code (p id) = s_code (q id) /\
             s_defaults (p id) = s_defaults (q id) /\ Permutation (s_refs (p id)) (s_refs (q id)).

Lemma rule_for_same p q par t : same_up_to_order p q -> rule_for p par t = rule_for q par t.
Proof. intros H. unfold rule_for. destruct (H t) as (-> & _). reflexivity. Qed.

Lemma succs_same p q r x : same_up_to_order p q -> In x (succs p r) -> In x (succs q r).
Proof.
  intros H Hin. apply in_succs in Hin. destruct Hin as (Hk & t & Ht & E). apply in_succs. split; auto.
  exists t. split.
  - destruct (H (snd r)) as (_ & _ & _ & Hp). eapply Permutation_in; eauto.
  - rewrite <- (rule_for_same p q) by auto. exact E.
Qed.

Lemma same_sym p q : same_up_to_order p q -> same_up_to_order q p.
Proof. intros H id. destruct (H id) as (A & B & C & D). repeat split; auto. symmetry; auto. Qed.

Lemma reach_same p q f x : same_up_to_order p q -> Reach p f x -> Reach q f x.
Proof.
  intros H Hr. induction Hr as [|r x Hr IH Hin]; [constructor|].
  eapply RS; [exact IH|]. eapply succs_same; eauto.
Qed.

Lemma sortkey_inj r r' : rule_sortkey r = rule_sortkey r' -> r = r'.
Proof.
  destruct r as [[k o] t], r' as [[k' o'] t']. unfold rule_sortkey; simpl. intros H. inversion H as [[H1 H2 H3]].
  apply Nnat.Nat2N.inj in H3. subst t'.
  assert (k = k') by (destruct k, k'; try reflexivity; discriminate). subst k'.
  assert (o = o').
  { destruct o as [a|], o' as [b|]; try reflexivity.
    - change (N.of_nat (S a) = N.of_nat (S b)) in H2. apply Nnat.Nat2N.inj in H2. inversion H2. reflexivity.
    - change (N.of_nat (S a) = 0%N) in H2. lia.
    - change (0%N = N.of_nat (S b)) in H2. lia. }
  subst. reflexivity.
Qed.

Lemma nodup_map_inj {A B} (g : A -> B) l : (forall a b, g a = g b -> a = b) -> NoDup l -> NoDup (map g l).
Proof.
  intros Hg H. induction H as [|x l Hni Hnd IH]; simpl; constructor; auto.
  intros Hin. apply in_map_iff in Hin as (y & E & Hy). apply Hg in E. subst. auto.
Qed.

Lemma rule_content_same p q hd r : same_up_to_order p q -> rule_content p hd r = rule_content q hd r.
Proof. intros H. unfold rule_content. destruct (H (snd r)) as (-> & -> & -> & _). reflexivity. Qed.

(** The collected set, hence the ordered rule list, hence what is fed to the digest, is the same
    whatever the order in which the (unordered) collections of referenced names are iterated:
    hash randomisation, definition order and the order of earlier version queries cannot matter *)
Theorem version_perm_invariant p q f fuel fuel' hd :
  same_up_to_order p q ->
  closed p (collect p fuel f) = true -> closed q (collect q fuel' f) = true ->
  version_input p hd (collect p fuel f) = version_input q hd (collect q fuel' f).
Proof.
  intros Hs Hcp Hcq.
  assert (Hperm : Permutation (collect p fuel f) (collect q fuel' f)).
  { apply NoDup_Permutation; try apply collect_nodup. intros x.
    rewrite (collect_exact p f fuel Hcp), (collect_exact q f fuel' Hcq).
    split; [apply reach_same; auto|apply reach_same; apply same_sym; auto]. }
  unfold version_input.
  assert (Ho : ordered_rules (collect p fuel f) = ordered_rules (collect q fuel' f)).
  { unfold ordered_rules. apply sort_kv_canonical.
    - apply Permutation_map. exact Hperm.
    - unfold nodupk. rewrite map_map. simpl. apply nodup_map_inj; [apply sortkey_inj|apply collect_nodup]. }
  rewrite Ho. apply flat_map_ext. intros kr. rewrite (rule_content_same p q hd (snd kr) Hs). reflexivity.
Qed.
