(** C13: the in-process version cache returns the from-scratch version. *)
From Coq Require Import List Arith Bool NArith Lia Permutation.
From Memento Require Import Codec.Json Codec.ArgHashProofs Version.Rules Version.RulesProofs Version.Stale Version.StaleProofs Version.VCache.
Import ListNotations.
Open Scope nat_scope.

(** every name a reachable function refers to is of a kind that yields a rule *)
Definition tracked_sym (s : sym) : bool :=
  match s_kind s with SMemento _ | SPlain true | SVar (Some _) | SUndef => true | _ => false end.

Definition tracked (p : prog) (f : nat) : Prop :=
  forall x, Reach p f x -> (fst (fst x) = KM \/ fst (fst x) = KF) ->
  forall u, In u (s_refs (p (snd x))) -> tracked_sym (p u) = true.

Lemma rule_for_tracked p par u : tracked_sym (p u) = true -> exists k, rule_for p par u = Some (k, Some par, u).
Proof.
  unfold tracked_sym, rule_for. destruct (s_kind (p u)) as [e|[|]|[v|]|]; intros H; try discriminate; eauto.
Qed.

Lemma pair_eqb_eq a b : pair_eqb a b = true -> a = b.
Proof.
  destruct a, b. unfold pair_eqb. simpl. intros H. apply andb_true_iff in H as (H1 & H2).
  apply Nat.eqb_eq in H1, H2. subst. reflexivity.
Qed.

Lemma obs_rule_for w0 w par t : obs true w0 t = obs true w t -> rule_for (wp w0) par t = rule_for (wp w) par t.
Proof.
  unfold obs, rule_for.
  destruct (s_kind (wp w0 t)) as [e|[|]|[v|]|], (s_kind (wp w t)) as [e'|[|]|[v'|]|]; intros H; inversion H; subst; reflexivity.
Qed.

Section Unchanged.
Variable K : nat.
Variables w0 w : world.
Variable f : nat.
Hypothesis Hcons : forall t u, ws w0 t = ws w u -> wp w0 t = wp w u.
Hypothesis Hroot : wp w0 f = wp w f.
Hypothesis Hh0 : tracked (wp w0) f.
Hypothesis Hc0 : closed (wp w0) (collect (wp w0) K f) = true.
Hypothesis Hc : closed (wp w) (collect (wp w) K f) = true.
Hypothesis Hun : changed true K w0 w f = false.

Lemma unchanged_obs x : Reach (wp w0) f x -> obs true w0 (snd x) = obs true w (snd x).
Proof.
  intros Hx. apply (collect_exact _ _ K Hc0) in Hx. unfold changed in Hun.
  destruct (pair_eqb (obs true w0 (snd x)) (obs true w (snd x))) eqn:E; [apply pair_eqb_eq; exact E|].
  assert (existsb (fun x => negb (pair_eqb (obs true w0 (snd x)) (obs true w (snd x)))) (collect (wp w0) K f) = true).
  { apply existsb_exists. exists x. split; [exact Hx|]. rewrite E. reflexivity. }
  congruence.
Qed.

Lemma fn_def_same x : Reach (wp w0) f x -> (fst (fst x) = KM \/ fst (fst x) = KF) -> wp w0 (snd x) = wp w (snd x).
Proof.
  intros Hx Hk. pose proof (unchanged_obs x Hx) as Ho.
  inversion Hx as [|r y Hr Hs]; subst; [exact Hroot|].
  apply in_succs in Hs. destruct Hs as (_ & t & _ & E). destruct (rule_for_kind _ _ _ _ E) as (Ex & Hkind).
  rewrite Ex in *. simpl in *. unfold obs in Ho.
  destruct Hk as [Hk|Hk]; rewrite Hk in Hkind.
  - destruct Hkind as (e & He). rewrite He in Ho.
    destruct (s_kind (wp w t)) as [e'|[|]|[v'|]|]; inversion Ho as [Hst]. apply Hcons. exact Hst.
  - rewrite Hkind in Ho.
    destruct (s_kind (wp w t)) as [e'|[|]|[v'|]|]; inversion Ho as [Hst]. apply Hcons. exact Hst.
Qed.

Lemma reach_fwd x : Reach (wp w0) f x -> Reach (wp w) f x.
Proof.
  intros Hx. induction Hx as [|r x Hr IH Hs]; [constructor|].
  pose proof (RS _ _ r x Hr Hs) as Hx.
  apply in_succs in Hs. destruct Hs as (Hk & t & Ht & E).
  destruct (rule_for_kind _ _ _ _ E) as (Ex & _).
  eapply RS; [exact IH|]. apply in_succs. split; [exact Hk|]. exists t. split.
  - rewrite <- (fn_def_same r Hr Hk). exact Ht.
  - rewrite <- (obs_rule_for w0 w (snd r) t); [exact E|].
    pose proof (unchanged_obs x Hx) as Ho. rewrite Ex in Ho. exact Ho.
Qed.

Lemma reach_bwd x : Reach (wp w) f x -> Reach (wp w0) f x.
Proof.
  intros Hx. induction Hx as [|r x Hr IH Hs]; [constructor|].
  apply in_succs in Hs. destruct Hs as (Hk & t & Ht & E).
  rewrite <- (fn_def_same r IH Hk) in Ht.
  destruct (rule_for_tracked (wp w0) (snd r) t (Hh0 r IH Hk t Ht)) as (k & E0).
  assert (Hy : Reach (wp w0) f (k, Some (snd r), t)).
  { eapply RS; [exact IH|]. apply in_succs. split; [exact Hk|]. exists t. split; auto. }
  pose proof (unchanged_obs _ Hy) as Ho. simpl in Ho.
  rewrite (obs_rule_for w0 w (snd r) t Ho) in E0. rewrite E0 in E. inversion E. subst. exact Hy.
Qed.

Lemma content_same x : Reach (wp w0) f x -> rule_content (wp w0) true x = rule_content (wp w) true x.
Proof.
  intros Hx. unfold rule_content. destruct (fst (fst x)) eqn:Ek.
  - rewrite (fn_def_same x Hx (or_introl Ek)). reflexivity.
  - rewrite (fn_def_same x Hx (or_intror Ek)). reflexivity.
  - pose proof (unchanged_obs x Hx) as Ho. unfold obs in Ho.
    destruct (s_kind (wp w0 (snd x))) as [e|[|]|[v|]|], (s_kind (wp w (snd x))) as [e'|[|]|[v'|]|]; inversion Ho; subst; reflexivity.
  - reflexivity.
Qed.

(** the rules collected earlier all still observe what they observed: the from-scratch version
    of the present world is the cached one *)
Lemma unchanged_same_ver : ver K w0 f = ver K w f.
Proof.
  unfold ver, keyed_input.
  assert (Hperm : Permutation (collect (wp w0) K f) (collect (wp w) K f)).
  { apply NoDup_Permutation; try apply collect_nodup. intros x.
    rewrite (collect_exact _ _ K Hc0), (collect_exact _ _ K Hc). split; [apply reach_fwd|apply reach_bwd]. }
  assert (Ho : ordered_rules (collect (wp w0) K f) = ordered_rules (collect (wp w) K f)).
  { unfold ordered_rules. apply sort_kv_canonical.
    - apply Permutation_map. exact Hperm.
    - unfold nodupk. rewrite map_map. simpl. apply nodup_map_inj; [apply sortkey_inj|apply collect_nodup]. }
  rewrite <- Ho. apply map_ext_in. intros kr Hkr. f_equal. apply content_same.
  apply (collect_exact _ _ K Hc0). apply (Permutation_in _ (ordered_perm _)). apply in_map. exact Hkr.
Qed.

End Unchanged.

(** ---- the state machine ---- *)
Section Machine.
Variable K : nat.

(** a query is admissible when the function is a memento function whose references are all
    tracked and the saturation bound suffices *)
Definition askable (w : world) (f : nat) : Prop :=
  tracked (wp w) f /\ closed (wp w) (collect (wp w) K f) = true.

Definition J (st : vstate) : Prop :=
  (forall t, ws (cur st) t < fresh st) /\
  (forall f w0, snap st f = Some w0 ->
     (forall t, ws w0 t < fresh st) /\
     (forall t u, ws w0 t = ws (cur st) u -> wp w0 t = wp (cur st) u) /\
     wp w0 f = wp (cur st) f /\
     askable w0 f /\
     forall g v, cache st f = Some (g, v) -> v = ver K w0 f) /\
  (forall t u, ws (cur st) t = ws (cur st) u -> wp (cur st) t = wp (cur st) u).

Lemma J_init : J vinit.
Proof. split; [intros; simpl; lia|]. split; [intros f w0 H; discriminate|]. intros; reflexivity. Qed.

Lemma upd_same {A} (g : nat -> A) t a : upd g t a t = a.
Proof. unfold upd. rewrite Nat.eqb_refl. reflexivity. Qed.
Lemma upd_other {A} (g : nat -> A) t a x : x <> t -> upd g t a x = g x.
Proof. unfold upd. intros H. destruct (Nat.eqb_spec x t); [contradiction|reflexivity]. Qed.

Lemma J_define st t s : J st -> J (fst (vstep true K st (Define t s))).
Proof.
  intros (Ja & Jb & Jc). simpl. split; [|split].
  - intros x. simpl. unfold upd. destruct (Nat.eqb x t); [lia|]. specialize (Ja x). lia.
  - intros f w0. simpl. unfold upd at 1. destruct (Nat.eqb_spec f t) as [->|Hn]; [discriminate|].
    intros Hs. destruct (Jb f w0 Hs) as (B1 & B2 & B3 & B4 & B5). split; [intros x; specialize (B1 x); lia|].
    split; [|split; [|split; [exact B4|exact B5]]].
    + intros x u. unfold upd. destruct (Nat.eqb_spec u t) as [->|Hu].
      * intros E. specialize (B1 x). lia.
      * apply B2.
    + rewrite upd_other by exact Hn. exact B3.
  - intros x u. simpl. unfold upd.
    destruct (Nat.eqb_spec x t) as [->|Hx], (Nat.eqb_spec u t) as [->|Hu]; auto.
    + intros E. specialize (Ja u). lia.
    + intros E. specialize (Ja x). lia.
Qed.

Lemma J_alias st t u : J st -> J (fst (vstep true K st (Alias t u))).
Proof.
  intros (Ja & Jb & Jc). simpl. split; [|split].
  - intros x. simpl. unfold upd. destruct (Nat.eqb x t); apply Ja.
  - intros f w0. simpl. unfold upd at 1. destruct (Nat.eqb_spec f t) as [->|Hn]; [discriminate|].
    intros Hs. destruct (Jb f w0 Hs) as (B1 & B2 & B3 & B4 & B5). split; [exact B1|].
    split; [|split; [|split; [exact B4|exact B5]]].
    + intros x y. unfold upd. destruct (Nat.eqb_spec y t) as [->|Hy]; apply B2.
    + rewrite upd_other by exact Hn. exact B3.
  - intros x y. simpl. unfold upd.
    destruct (Nat.eqb_spec x t) as [->|Hx], (Nat.eqb_spec y t) as [->|Hy]; auto.
Qed.

Lemma J_recompute st g f : J st -> askable (cur st) f -> J (fst (recompute K st g f)).
Proof.
  intros (Ja & Jb & Jc) Hask. unfold recompute. simpl. split; [exact Ja|]. split; [|exact Jc].
  intros f' w0. simpl. unfold upd at 1. destruct (Nat.eqb_spec f' f) as [->|Hn].
  - intros H. inversion H. subst w0. split; [exact Ja|]. split; [exact Jc|]. split; [reflexivity|]. split; [exact Hask|].
    intros g' v. rewrite upd_same. intros E. inversion E. reflexivity.
  - intros Hs. destruct (Jb f' w0 Hs) as (B1 & B2 & B3 & B4 & B5). repeat split; auto; try apply B4.
    intros g' v. rewrite upd_other by exact Hn. apply B5.
Qed.

(** C13: a query answers with the from-scratch version of the world as it is *)
Lemma query_correct st f : J st -> askable (cur st) f ->
  snd (vstep true K st (Query f)) = Some (ver K (cur st) f) /\ J (fst (vstep true K st (Query f))) /\
  cur (fst (vstep true K st (Query f))) = cur st.
Proof.
  intros HJ Hask. pose proof HJ as (Ja & Jb & Jc). cbn [vstep].
  assert (Hrec : forall g, snd (let '(st', v') := recompute K st g f in (st', Some v')) = Some (ver K (cur st) f) /\
                            J (fst (let '(st', v') := recompute K st g f in (st', Some v'))) /\
                            cur (fst (let '(st', v') := recompute K st g f in (st', Some v'))) = cur st).
  { intros g. pose proof (J_recompute st g f HJ Hask) as H. unfold recompute in *. simpl in *. auto. }
  destruct (cache st f) as [[g v]|] eqn:Ec; [|apply Hrec].
  destruct (snap st f) as [w0|] eqn:Es; [|apply Hrec].
  destruct (Nat.eqb g (gen st)); [|apply Hrec].
  destruct (changed true K w0 (cur st) f) eqn:Ech; [apply Hrec|].
  simpl. split; [|auto]. f_equal.
  destruct (Jb f w0 Es) as (B1 & B2 & B3 & (B4 & B4') & B5).
  rewrite (B5 g v Ec). destruct Hask as (_ & Hc).
  exact (unchanged_same_ver K w0 (cur st) f B2 B3 B4 B4' Hc Ech).
Qed.

(** for every event history in which the queries are admissible *)
Fixpoint admissible (st : vstate) (es : list event) : Prop :=
  match es with
  | [] => True
  | e :: rest =>
    (match e with Query f => askable (cur st) f | _ => True end) /\ admissible (fst (vstep true K st e)) rest
  end.

Theorem cache_coherent es : forall st, J st -> admissible st es ->
  Forall (fun r => snd (fst r) = Some (snd r)) (vrun true K st es).
Proof.
  induction es as [|e es IH]; intros st HJ Hadm; [constructor|].
  destruct Hadm as (Ha & Hrest). cbn [vrun].
  destruct e as [t s|t u|f].
  - cbn [vrun vstep]. apply IH; [exact (J_define st t s HJ)|exact Hrest].
  - cbn [vrun vstep]. apply IH; [exact (J_alias st t u HJ)|exact Hrest].
  - destruct (query_correct st f HJ Ha) as (Q1 & Q2 & Q3).
    destruct (vstep true K st (Query f)) as [st' o] eqn:E. simpl in Q1, Q2, Q3, Hrest.
    constructor; [simpl; rewrite Q3; exact Q1|apply IH; assumption].
Qed.

End Machine.

(** without the identity comparison for memento-function rules the statement is false:
    an alias re-bound from one memento function to another goes unnoticed *)
Definition mk_m (c : nat) (refs : list nat) : sym := {| s_kind := SMemento None; s_code := c; s_defaults := 0; s_refs := refs |}.

Theorem no_identity_refuted :
  let es := [Define 0 (mk_m 10 []); Define 1 (mk_m 11 []); Alias 2 0; Define 3 (mk_m 12 [2]); Query 3; Alias 2 1; Query 3] in
  (exists a b v, vrun false 8 vinit es = [(3, Some a, a); (3, Some b, v)] /\ b <> v) /\
  Forall (fun r => snd (fst r) = Some (snd r)) (vrun true 8 vinit es).
Proof.
  split.
  - eexists _, _, _. split; [vm_compute; reflexivity|]. discriminate.
  - vm_compute. repeat constructor.
Qed.

Lemma tracked_all p f : (forall u, tracked_sym (p u) = true) -> tracked p f.
Proof. intros H x _ _ u _. apply H. Qed.
