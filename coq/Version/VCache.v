(** The in-process version cache (memento.py: _global_fn_generation, _global_fn_version_cache,
    _update_dependencies; code_hash.py: did_change of each rule kind).

    A world maps names to definitions; every definition that is executed gets a fresh stamp
    (the identity of the function object). An alias makes a name refer to the object of another
    name. A query follows _update_dependencies: the cached version is returned when the entry
    belongs to the current generation and no rule collected at the time of the last
    computation observes a change; otherwise the version is computed from scratch.

    Not modelled here: the computation that happens while a function is being decorated (before
    its own name is bound), clones and unregistered instances (they share or lack rules), the
    cluster lock. The harness covers them against the implementation. *)
From Coq Require Import List Arith Bool NArith.
From Memento Require Import Codec.Json Version.Rules Version.Stale.
Import ListNotations.
Open Scope nat_scope.

Record world := { wp : prog; ws : nat -> nat }.

Definition upd {A} (g : nat -> A) (t : nat) (a : A) : nat -> A := fun x => if Nat.eqb x t then a else g x.

(** what did_change of a rule looks at: [ki] = a memento-function rule compares the identity
    of the function (true) or only that the name still holds some memento function (false) *)
Definition obs (ki : bool) (w : world) (t : nat) : nat * nat :=
  match s_kind (wp w t) with
  | SMemento _ => (0, if ki then ws w t else 0)
  | SPlain b => ((if b then 1 else 2), ws w t)
  | SVar (Some v) => (3, v)
  | SVar None => (4, 0)
  | SUndef => (5, 0)
  end.

Definition pair_eqb (a b : nat * nat) : bool := Nat.eqb (fst a) (fst b) && Nat.eqb (snd a) (snd b).

Definition changed (ki : bool) (K : nat) (w0 w : world) (f : nat) : bool :=
  existsb (fun x => negb (pair_eqb (obs ki w0 (snd x)) (obs ki w (snd x)))) (collect (wp w0) K f).

Definition V : Type := list (rule * option (nat * nat * nat)).
Definition ver (K : nat) (w : world) (f : nat) : V := keyed_input (wp w) true (collect (wp w) K f).

Record vstate := {
  cur : world;
  fresh : nat;                                  (* next stamp *)
  gen : nat;                                    (* _global_fn_generation *)
  cache : nat -> option (nat * V);              (* _global_fn_version_cache *)
  snap : nat -> option world                    (* the world the rules of the current instance were collected in *)
}.

Inductive event :=
| Define (t : nat) (s : sym)                   (* execute a definition / rebind or mutate a variable *)
| Alias (t u : nat)                            (* the name t now refers to the object of the name u *)
| Query (f : nat).

Definition undef_sym : sym := {| s_kind := SUndef; s_code := 0; s_defaults := 0; s_refs := [] |}.

Definition vinit : vstate :=
  {| cur := {| wp := fun _ => undef_sym; ws := fun _ => 0 |}; fresh := 1; gen := 0;
     cache := fun _ => None; snap := fun _ => None |}.

Definition is_memento (s : sym) : bool := match s_kind s with SMemento _ => true | _ => false end.

Definition recompute (K : nat) (st : vstate) (g : nat) (f : nat) : vstate * V :=
  let v := ver K (cur st) f in
  ({| cur := cur st; fresh := fresh st; gen := g;
      cache := upd (cache st) f (Some (g, v)); snap := upd (snap st) f (Some (cur st)) |}, v).

Definition vstep (ki : bool) (K : nat) (st : vstate) (e : event) : vstate * option V :=
  match e with
  | Define t s =>
    let w := {| wp := upd (wp (cur st)) t s; ws := upd (ws (cur st)) t (fresh st) |} in
    ({| cur := w; fresh := S (fresh st);
        gen := if is_memento s then S (gen st) else gen st;       (* registration bumps the generation *)
        cache := cache st;
        snap := upd (snap st) t None |}, None)                    (* a new object has no rules yet *)
  | Alias t u =>
    let w := {| wp := upd (wp (cur st)) t (wp (cur st) u); ws := upd (ws (cur st)) t (ws (cur st) u) |} in
    ({| cur := w; fresh := fresh st; gen := gen st; cache := cache st; snap := upd (snap st) t None |}, None)
  | Query f =>
    match cache st f, snap st f with
    | Some (g, v), Some w0 =>
      if Nat.eqb g (gen st) then
        if changed ki K w0 (cur st) f
        then let '(st', v') := recompute K st (S (gen st)) f in (st', Some v')
        else (st, Some v)
      else let '(st', v') := recompute K st (gen st) f in (st', Some v')
    | _, _ => let '(st', v') := recompute K st (gen st) f in (st', Some v')
    end
  end.

Fixpoint vrun (ki : bool) (K : nat) (st : vstate) (es : list event) : list (nat * option V * V) :=
  match es with
  | [] => []
  | e :: rest =>
    let '(st', o) := vstep ki K st e in
    match e with
    | Query f => (f, o, ver K (cur st') f) :: vrun ki K st' rest      (* answer, and the from-scratch version *)
    | _ => vrun ki K st' rest
    end
  end.
