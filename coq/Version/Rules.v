(** Function versions (code_hash.py: HashRule family, _visit_dependency,
    collect_transitive_dependencies; memento.py: _recompute_version; dependency_graph.py).

    A program is a table of symbols: memento functions (automatically versioned or pinned),
    plain functions (inside or outside the package scope), variables (of a supported type or
    not) and undefined symbols; every function lists the symbols its source refers to (name
    resolution itself — bare name, module attribute, alias — is done by the harness from the
    live objects; here an edge is already a resolved reference).

    A hash rule is identified by its key (kind, parent, target), exactly like the strings
    "MementoFunction;parent;target" etc. Collection follows references from memento functions
    (of any package) and from plain functions of the package scope, never from anything else;
    a rule already collected is not entered again (this is what breaks cycles).
    The collected set is computed here by saturation: the traversal order of the real code is
    irrelevant for the resulting set, which is what the theorems are about. *)
From Coq Require Import List Arith Bool NArith.
From Memento Require Import Codec.Json.
Import ListNotations.
Open Scope nat_scope.

Inductive skind :=
| SMemento (explicit : option nat)      (* memento function; Some v = pinned version *)
| SPlain (in_scope : bool)              (* plain function; in scope = of the package of the memento function it is reached from *)
| SVar (value : option nat)             (* module variable; None = a type memento cannot hash *)
| SUndef.                               (* a name that resolves to nothing (yet) *)

Record sym := {
  s_kind : skind;
  s_code : nat;                          (* everything fn_code_hash hashes: code attributes, nested code, constants *)
  s_defaults : nat;                      (* __defaults__ / __kwdefaults__: read by the body, hashed or not per source fact *)
  s_refs : list nat                      (* symbols the source of the function refers to *)
}.

Definition prog := nat -> sym.

Inductive rkind := KM | KF | KV | KU.
Definition rule : Type := (rkind * option nat * nat)%type.     (* kind, parent function, target symbol *)

Definition rkind_eqb (a b : rkind) : bool :=
  match a, b with KM, KM | KF, KF | KV, KV | KU, KU => true | _, _ => false end.
Definition onat_eqb (a b : option nat) : bool :=
  match a, b with None, None => true | Some x, Some y => Nat.eqb x y | _, _ => false end.
Definition rule_eqb (a b : rule) : bool :=
  rkind_eqb (fst (fst a)) (fst (fst b)) && onat_eqb (snd (fst a)) (snd (fst b)) && Nat.eqb (snd a) (snd b).

Definition mem_rule (r : rule) (l : list rule) : bool := existsb (rule_eqb r) l.

Section Prog.
Variable p : prog.

(** the rule a reference from [parent] to [t] gives rise to, if any (try_resolve order:
    memento function, plain function — only inside the package scope —, variable of a
    supported type; an unresolvable name is an undefined-symbol rule) *)
Definition rule_for (parent : nat) (t : nat) : option rule :=
  match s_kind (p t) with
  | SMemento _ => Some (KM, Some parent, t)
  | SPlain true => Some (KF, Some parent, t)
  | SPlain false => None
  | SVar (Some _) => Some (KV, Some parent, t)
  | SVar None => None
  | SUndef => Some (KU, Some parent, t)
  end.

(** rules entered from a collected rule: only function rules descend *)
Definition succs (r : rule) : list rule :=
  match fst (fst r) with
  | KM | KF =>
    flat_map (fun t => match rule_for (snd r) t with Some x => [x] | None => [] end) (s_refs (p (snd r)))
  | _ => []
  end.

Definition add_rule (r : rule) (l : list rule) : list rule := if mem_rule r l then l else l ++ [r].

Definition sat_step (l : list rule) : list rule :=
  fold_left (fun acc r => fold_left (fun acc' x => add_rule x acc') (succs r) acc) l l.

Fixpoint saturate (fuel : nat) (l : list rule) : list rule :=
  match fuel with O => l | S f => saturate f (sat_step l) end.

Definition root_rule (f : nat) : rule := (KM, None, f).

Definition collect (fuel : nat) (f : nat) : list rule := saturate fuel [root_rule f].

Definition closed (l : list rule) : bool := forallb (fun r => forallb (fun x => mem_rule x l) (succs r)) l.

(** what the dependency graph reports *)
Fixpoint dedup_nat (l : list nat) : list nat :=
  match l with [] => [] | x :: r => if existsb (Nat.eqb x) r then dedup_nat r else x :: dedup_nat r end.

Definition transitive_mfns (rules : list rule) (f : nat) : list nat :=
  dedup_nat (flat_map (fun r => match fst (fst r) with KM => if Nat.eqb (snd r) f then [] else [snd r] | _ => [] end) rules).

Definition direct_mfns (rules : list rule) (f : nat) : list nat :=
  dedup_nat (flat_map (fun r => match r with
                                | (KM, Some par, t) => if Nat.eqb par f && negb (Nat.eqb t f) then [t] else []
                                | _ => [] end) rules).

(** ---- the version: digest over the rule hashes in key order ---- *)

(* content a rule contributes: None = does not enter the digest (undefined symbol) *)
Definition rule_content (hash_defaults : bool) (r : rule) : option (nat * nat * nat) :=
  let s := p (snd r) in
  match fst (fst r) with
  | KM => match s_kind s with
          | SMemento (Some v) => Some (1, v, 0)                                (* the pinned version string *)
          | _ => Some (2, s_code s, if hash_defaults then s_defaults s else 0)
          end
  | KF => Some (2, s_code s, if hash_defaults then s_defaults s else 0)
  | KV => match s_kind s with SVar (Some v) => Some (3, v, 0) | _ => None end
  | KU => None
  end.

(* canonical key for sorting: the code points of "kind;parent;target" abstracted to numbers *)
Definition rule_sortkey (r : rule) : ustr :=
  [ (match fst (fst r) with KF => 0 | KV => 1 | KM => 2 | KU => 3 end)%N;
    (match snd (fst r) with None => 0 | Some x => N.of_nat (S x) end)%N; N.of_nat (snd r) ].

Definition ordered_rules (rules : list rule) : list (ustr * rule) :=
  sort_kv (map (fun r => (rule_sortkey r, r)) rules).

(** what is fed to the digest: the contents of the rules in key order *)
Definition version_input (hash_defaults : bool) (rules : list rule) : list (nat * nat * nat) :=
  flat_map (fun kr => match rule_content hash_defaults (snd kr) with Some c => [c] | None => [] end) (ordered_rules rules).

End Prog.

(** correspondence support *)
Fixpoint table (l : list (nat * sym)) : prog :=
  fun id => match l with
            | [] => {| s_kind := SUndef; s_code := 0; s_defaults := 0; s_refs := [] |}
            | (i, d) :: r => if Nat.eqb id i then d else table r id
            end.

Definition nat_set_eqb (a b : list nat) : bool :=
  forallb (fun x => existsb (Nat.eqb x) b) a && forallb (fun x => existsb (Nat.eqb x) a) b.

Definition rules_set_eqb (a b : list rule) : bool :=
  forallb (fun x => mem_rule x b) a && forallb (fun x => mem_rule x a) b.

(** a case: program, root, what the implementation reported: transitive, direct, and the
    function rules (KM / KF keys); result None agree, Some 0 not closed (fuel), 1 transitive,
    2 direct, 3 rule keys *)
Definition deps_case (c : list (nat * sym) * nat * (list nat * list nat * list rule)) : option nat :=
  let '(tab, f, (tr, di, rk)) := c in
  let p := table tab in
  let rules := collect p (S (length tab) * 4) f in
  if negb (closed p rules) then Some 0
  else if negb (nat_set_eqb (transitive_mfns rules f) tr) then Some 1
  else if negb (nat_set_eqb (direct_mfns rules f) di) then Some 2
  else if negb (rules_set_eqb (filter (fun r => match fst (fst r) with KM | KF => true | _ => false end) rules) rk) then Some 3
  else None.

(** a case for the full rule set (all four kinds): None agree, Some 0 not closed, Some 3 differ *)
Definition rules_case (c : list (nat * sym) * nat * list rule) : option nat :=
  let '(tab, f, rk) := c in
  let p := table tab in
  let rules := collect p (S (length tab) * 4) f in
  if negb (closed p rules) then Some 0
  else if negb (rules_set_eqb rules rk) then Some 3
  else None.
