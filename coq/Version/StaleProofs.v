(** C01: a version that identifies everything a function's behaviour depends on cannot be
    shared by two editions that behave differently; hence reading the store under
    (function, version) never returns a stale result, for any history of editions. *)
From Coq Require Import List Arith Bool NArith Lia Permutation.
From Memento Require Import Codec.Json Codec.ArgHashProofs Version.Rules Version.RulesProofs Version.Stale.
Import ListNotations.
Open Scope nat_scope.

Lemma rule_for_kind p par t x : rule_for p par t = Some x ->
  x = (fst (fst x), Some par, t) /\
  match fst (fst x) with
  | KM => exists e, s_kind (p t) = SMemento e
  | KF => s_kind (p t) = SPlain true
  | KV => exists v, s_kind (p t) = SVar (Some v)
  | KU => s_kind (p t) = SUndef
  end.
Proof.
  unfold rule_for. destruct (s_kind (p t)) as [e|[|]|[v|]|]; intros H; inversion H; subst; simpl; split; eauto.
Qed.

Lemma rule_for_hashable p par u : hashable_sym (p u) = true -> exists k, rule_for p par u = Some (k, Some par, u).
Proof.
  unfold hashable_sym, rule_for. destruct (s_kind (p u)) as [[e|]|[|]|[v|]|]; intros H; try discriminate; eauto.
Qed.

(** every symbol a reachable function refers to is of a kind memento hashes *)
Definition hashable (p : prog) (f : nat) : Prop :=
  forall x, Reach p f x -> (fst (fst x) = KM \/ fst (fst x) = KF) ->
  forall u, In u (s_refs (p (snd x))) -> hashable_sym (p u) = true.

Lemma reach_sym_kind p f : s_kind (p f) = SMemento None -> hashable p f ->
  forall x, Reach p f x ->
  match fst (fst x) with
  | KM => s_kind (p (snd x)) = SMemento None
  | KF => s_kind (p (snd x)) = SPlain true
  | KV => exists v, s_kind (p (snd x)) = SVar (Some v)
  | KU => s_kind (p (snd x)) = SUndef
  end.
Proof.
  intros Hr Hh x Hx. inversion Hx as [|r y Hr' Hs]; subst; [exact Hr|].
  apply in_succs in Hs. destruct Hs as (Hk & t & Ht & E).
  destruct (rule_for_kind _ _ _ _ E) as (Ex & Hkind). rewrite Ex. simpl.
  destruct (fst (fst x)); auto.
  destruct Hkind as (e & He). pose proof (Hh r Hr' Hk t Ht) as Hs. unfold hashable_sym in Hs. rewrite He in Hs.
  destruct e; [discriminate|exact He].
Qed.

Lemma ref_has_rule p f : hashable p f -> forall x, Reach p f x -> (fst (fst x) = KM \/ fst (fst x) = KF) ->
  forall u, In u (s_refs (p (snd x))) -> exists k, Reach p f (k, Some (snd x), u).
Proof.
  intros Hh x Hx Hk u Hu. destruct (rule_for_hashable p (snd x) u (Hh x Hx Hk u Hu)) as (k & E).
  exists k. eapply RS; [exact Hx|]. apply in_succs. split; auto. exists u. split; auto.
Qed.

Lemma refs_sub p q f : hashable p f -> (forall x, Reach p f x -> Reach q f x) ->
  forall x, Reach p f x -> (fst (fst x) = KM \/ fst (fst x) = KF) ->
  forall u, In u (s_refs (p (snd x))) -> In u (s_refs (q (snd x))).
Proof.
  intros Hh Hsub x Hx Hk u Hu. destruct (ref_has_rule p f Hh x Hx Hk u Hu) as (k & Hy).
  apply Hsub in Hy. inversion Hy as [|r' y Hr' Hs]; subst.
  apply in_succs in Hs. destruct Hs as (_ & t' & Ht' & E).
  destruct (rule_for_kind _ _ _ _ E) as (Ex & _). simpl in Ex. inversion Ex as [[Hpar]]. rewrite Hpar. exact Ht'.
Qed.

Section Agree.
Variable sem : nat -> nat -> (nat -> res) -> res.
Hypothesis sem_ext : forall c d e1 e2, (forall u, e1 u = e2 u) -> sem c d e1 = sem c d e2.
Variables p q : prog.
Variable f : nat.
Hypothesis Hrp : s_kind (p f) = SMemento None.
Hypothesis Hrq : s_kind (q f) = SMemento None.
Hypothesis Hhp : hashable p f.
Hypothesis Hhq : hashable q f.
Hypothesis Hset : forall x, Reach p f x <-> Reach q f x.
Hypothesis Hcont : forall x, Reach p f x -> rule_content p true x = rule_content q true x.

Lemma agree_fn x : Reach p f x -> (fst (fst x) = KM \/ fst (fst x) = KF) ->
  s_code (p (snd x)) = s_code (q (snd x)) /\ s_defaults (p (snd x)) = s_defaults (q (snd x)) /\
  forall u, In u (s_refs (p (snd x))) <-> In u (s_refs (q (snd x))).
Proof.
  intros Hx Hk.
  pose proof (reach_sym_kind p f Hrp Hhp x Hx) as Kp.
  pose proof (reach_sym_kind q f Hrq Hhq x (proj1 (Hset x) Hx)) as Kq.
  pose proof (Hcont x Hx) as Hc. unfold rule_content in Hc.
  assert (s_code (p (snd x)) = s_code (q (snd x)) /\ s_defaults (p (snd x)) = s_defaults (q (snd x))) as [Hcode Hdef].
  { destruct Hk as [Hk|Hk]; rewrite Hk in *; [rewrite Kp, Kq in Hc|]; inversion Hc; auto. }
  split; [exact Hcode|]. split; [exact Hdef|].
  intros u. split.
  - apply (refs_sub p q f Hhp (fun y => proj1 (Hset y)) x Hx Hk).
  - apply (refs_sub q p f Hhq (fun y => proj2 (Hset y)) x (proj1 (Hset x) Hx) Hk).
Qed.

Lemma existsb_iff (l l' : list nat) u : (In u l <-> In u l') -> existsb (Nat.eqb u) l = existsb (Nat.eqb u) l'.
Proof.
  intros H. destruct (existsb (Nat.eqb u) l) eqn:E; symmetry.
  - apply existsb_exists in E as (z & Hz & Ez). apply Nat.eqb_eq in Ez. subst z.
    apply existsb_exists. exists u. split; [apply H; exact Hz|apply Nat.eqb_refl].
  - destruct (existsb (Nat.eqb u) l') eqn:E'; [|reflexivity].
    apply existsb_exists in E' as (z & Hz & Ez). apply Nat.eqb_eq in Ez. subst z.
    assert (existsb (Nat.eqb u) l = true) by (apply existsb_exists; exists u; split; [apply H; exact Hz|apply Nat.eqb_refl]).
    congruence.
Qed.

Lemma eval_agree n : forall x, Reach p f x -> eval sem n p (snd x) = eval sem n q (snd x).
Proof.
  induction n as [|n IH]; intros x Hx; [reflexivity|]. cbn [eval].
  pose proof (reach_sym_kind p f Hrp Hhp x Hx) as Kp.
  pose proof (reach_sym_kind q f Hrq Hhq x (proj1 (Hset x) Hx)) as Kq.
  assert (Hfn : (fst (fst x) = KM \/ fst (fst x) = KF) ->
    sem (s_code (p (snd x))) (s_defaults (p (snd x))) (fun u => if is_ref p (snd x) u then eval sem n p u else Err)
    = sem (s_code (q (snd x))) (s_defaults (q (snd x))) (fun u => if is_ref q (snd x) u then eval sem n q u else Err)).
  { intros Hk. destruct (agree_fn x Hx Hk) as (Hc & Hd & Hr). rewrite Hc, Hd. apply sem_ext. intros u.
    unfold is_ref. rewrite (existsb_iff _ _ u (Hr u)).
    destruct (existsb (Nat.eqb u) (s_refs (q (snd x)))) eqn:E; [|reflexivity].
    apply existsb_exists in E as (z & Hz & Ez). apply Nat.eqb_eq in Ez. subst z.
    apply Hr in Hz. destruct (ref_has_rule p f Hhp x Hx Hk u Hz) as (k & Hy).
    exact (IH _ Hy). }
  destruct (fst (fst x)) eqn:Ek.
  - rewrite Kp, Kq. apply Hfn. auto.
  - rewrite Kp, Kq. apply Hfn. auto.
  - destruct Kp as (v & Kp). destruct Kq as (v' & Kq). rewrite Kp, Kq.
    pose proof (Hcont x Hx) as Hc. unfold rule_content in Hc. rewrite Ek, Kp, Kq in Hc. inversion Hc. reflexivity.
  - rewrite Kp, Kq. reflexivity.
Qed.

End Agree.

(** ---- from equal keyed inputs ---- *)

Lemma keyed_rules p hd C : map fst (keyed_input p hd C) = map snd (ordered_rules C).
Proof. unfold keyed_input. rewrite map_map. reflexivity. Qed.

Lemma ordered_perm C : Permutation (map snd (ordered_rules C)) C.
Proof.
  unfold ordered_rules. eapply Permutation_trans; [apply Permutation_map; apply sort_perm|].
  rewrite map_map. simpl. rewrite map_id. apply Permutation_refl.
Qed.

Lemma keyed_in p hd C x : In x C -> In (x, rule_content p hd x) (keyed_input p hd C).
Proof.
  intros H. apply (Permutation_in _ (Permutation_sym (ordered_perm C))) in H.
  apply in_map_iff in H as (kr & <- & Hkr). unfold keyed_input. apply in_map_iff. exists kr. auto.
Qed.

Lemma keyed_in_inv p hd C x c : In (x, c) (keyed_input p hd C) -> In x C /\ c = rule_content p hd x.
Proof.
  unfold keyed_input. intros H. apply in_map_iff in H as (kr & E & Hkr). inversion E; subst. split; [|reflexivity].
  apply (Permutation_in _ (ordered_perm C)). apply in_map. exact Hkr.
Qed.

(** C01, keyed form: two editions whose rule sets and rule contents coincide compute the same
    thing, whatever the bodies do ([sem] arbitrary) and however they were edited *)
Theorem same_keyed_same_result sem
  (sem_ext : forall c d e1 e2, (forall u, e1 u = e2 u) -> sem c d e1 = sem c d e2) p q f K K' :
  s_kind (p f) = SMemento None -> s_kind (q f) = SMemento None ->
  hashable p f -> hashable q f ->
  closed p (collect p K f) = true -> closed q (collect q K' f) = true ->
  keyed_input p true (collect p K f) = keyed_input q true (collect q K' f) ->
  forall n, eval sem n p f = eval sem n q f.
Proof.
  intros Hrp Hrq Hhp Hhq Hcp Hcq Hk n.
  assert (Hin : forall x, In x (collect p K f) <-> In x (collect q K' f)).
  { intros x. split; intros H.
    - apply (keyed_in p true) in H. rewrite Hk in H. apply keyed_in_inv in H. tauto.
    - apply (keyed_in q true) in H. rewrite <- Hk in H. apply keyed_in_inv in H. tauto. }
  assert (Hset : forall x, Reach p f x <-> Reach q f x).
  { intros x. rewrite <- (collect_exact p f K Hcp), <- (collect_exact q f K' Hcq). apply Hin. }
  assert (Hcont : forall x, Reach p f x -> rule_content p true x = rule_content q true x).
  { intros x Hx. apply (collect_exact p f K Hcp) in Hx. apply (keyed_in p true) in Hx. rewrite Hk in Hx.
    apply keyed_in_inv in Hx. tauto. }
  exact (eval_agree sem sem_ext p q f Hrp Hrq Hhp Hhq Hset Hcont n (root_rule f) (R0 p f)).
Qed.

(** ---- contents only (what the digest really sees), for editions with the same reference
    structure: edits of bodies, constants, defaults, variable values ---- *)

Definition kshape (k : skind) : nat :=
  match k with SMemento _ => 0 | SPlain true => 1 | SPlain false => 2 | SVar (Some _) => 3 | SVar None => 4 | SUndef => 5 end.

Definition same_structure (p q : prog) : Prop :=
  forall t, s_refs (p t) = s_refs (q t) /\ kshape (s_kind (p t)) = kshape (s_kind (q t)).

Lemma rule_for_struct p q par t : same_structure p q -> rule_for p par t = rule_for q par t.
Proof.
  intros H. destruct (H t) as (_ & Hk). unfold rule_for.
  destruct (s_kind (p t)) as [e|[|]|[v|]|], (s_kind (q t)) as [e'|[|]|[v'|]|]; simpl in Hk; try discriminate; reflexivity.
Qed.

Lemma succs_struct p q r : same_structure p q -> succs p r = succs q r.
Proof.
  intros H. unfold succs. destruct (H (snd r)) as (Hr & _). rewrite Hr.
  destruct (fst (fst r)); auto; apply flat_map_ext; intros t; rewrite (rule_for_struct p q _ _ H); reflexivity.
Qed.

Lemma sat_step_struct p q l : same_structure p q -> sat_step p l = sat_step q l.
Proof.
  intros H. unfold sat_step. generalize l at 2 4. induction l as [|r l IH]; intros acc; simpl; [reflexivity|].
  rewrite (succs_struct p q r H). apply IH.
Qed.

Lemma collect_struct p q K f : same_structure p q -> collect p K f = collect q K f.
Proof.
  intros H. unfold collect. generalize [root_rule f]. induction K as [|K IH]; intros l; simpl; [reflexivity|].
  rewrite (sat_step_struct p q l H). apply IH.
Qed.

Lemma content_none_struct p q hd x : same_structure p q ->
  (rule_content p hd x = None <-> rule_content q hd x = None).
Proof.
  intros H. destruct (H (snd x)) as (_ & Hk). unfold rule_content.
  destruct (fst (fst x)).
  - destruct (s_kind (p (snd x))) as [[e|]|?|?|], (s_kind (q (snd x))) as [[e'|]|?|?|]; split; intros; discriminate.
  - split; intros; discriminate.
  - destruct (s_kind (p (snd x))) as [e|[|]|[v|]|], (s_kind (q (snd x))) as [e'|[|]|[v'|]|]; simpl in Hk; try discriminate;
      split; intros; try discriminate; reflexivity.
  - tauto.
Qed.

Lemma flat_map_opt_inj {A B} (g h : A -> option B) (l : list A) :
  (forall a, g a = None <-> h a = None) ->
  flat_map (fun a => match g a with Some c => [c] | None => [] end) l
  = flat_map (fun a => match h a with Some c => [c] | None => [] end) l ->
  forall a, In a l -> g a = h a.
Proof.
  intros Hn. induction l as [|a l IH]; simpl; intros E b Hb; [contradiction|].
  destruct (g a) as [c|] eqn:Eg, (h a) as [c'|] eqn:Eh.
  - simpl in E. inversion E. subst. destruct Hb as [<-|Hb]; [congruence|]. apply IH; auto.
  - apply Hn in Eh. congruence.
  - apply Hn in Eg. congruence.
  - simpl in E. destruct Hb as [<-|Hb]; [congruence|]. apply IH; auto.
Qed.

Theorem same_contents_same_result sem
  (sem_ext : forall c d e1 e2, (forall u, e1 u = e2 u) -> sem c d e1 = sem c d e2) p q f K :
  same_structure p q ->
  s_kind (p f) = SMemento None -> s_kind (q f) = SMemento None ->
  hashable p f -> hashable q f ->
  closed p (collect p K f) = true ->
  version_input p true (collect p K f) = version_input q true (collect q K f) ->
  forall n, eval sem n p f = eval sem n q f.
Proof.
  intros Hs Hrp Hrq Hhp Hhq Hcp Hv n.
  pose proof (collect_struct p q K f Hs) as HC.
  assert (Hcq : closed q (collect q K f) = true).
  { rewrite <- HC. unfold closed in *. rewrite forallb_forall in *. intros r Hr. specialize (Hcp r Hr).
    rewrite <- (succs_struct p q r Hs). exact Hcp. }
  assert (Hset : forall x, Reach p f x <-> Reach q f x).
  { intros x. rewrite <- (collect_exact p f K Hcp), <- (collect_exact q f K Hcq), HC. tauto. }
  assert (Hcont : forall x, Reach p f x -> rule_content p true x = rule_content q true x).
  { intros x Hx. apply (collect_exact p f K Hcp) in Hx.
    unfold version_input in Hv. rewrite <- HC in Hv.
    assert (Hin : In (rule_sortkey x, x) (ordered_rules (collect p K f))).
    { unfold ordered_rules. apply (Permutation_in _ (Permutation_sym (sort_perm _))). apply in_map_iff. exists x. auto. }
    exact (flat_map_opt_inj (fun kr => rule_content p true (snd kr)) (fun kr => rule_content q true (snd kr)) _
             (fun kr => content_none_struct p q true (snd kr) Hs) Hv _ Hin). }
  exact (eval_agree sem sem_ext p q f Hrp Hrq Hhp Hhq Hset Hcont n (root_rule f) (R0 p f)).
Qed.

(** when default parameter values are not hashed the statement is false *)
Theorem defaults_unhashed_refuted :
  let sem := fun c d (_ : nat -> res) => Val (c + d) in
  let mk d := table [(0, {| s_kind := SMemento None; s_code := 1; s_defaults := d; s_refs := [] |})] in
  same_structure (mk 5) (mk 6) /\
  version_input (mk 5) false (collect (mk 5) 4 0) = version_input (mk 6) false (collect (mk 6) 4 0) /\
  keyed_input (mk 5) false (collect (mk 5) 4 0) = keyed_input (mk 6) false (collect (mk 6) 4 0) /\
  eval sem 1 (mk 5) 0 <> eval sem 1 (mk 6) 0.
Proof.
  split; [|split; [reflexivity|split; [reflexivity|vm_compute; discriminate]]].
  intros t. destruct t as [|t]; split; reflexivity.
Qed.


(** the digest is fed the rule contents without their keys. When the edit changes what names ARE (a name that
    was an explicitly versioned function becomes a variable and another one the function), two editions can feed
    it the same sequence and behave differently: this is why the arbitrary-structure theorem keeps the keys, and
    why the key-less one assumes the same reference structure *)
Theorem contents_only_arbitrary_structure_refuted :
  let sem := fun c d (env : nat -> res) => match env 1, env 2 with Val a, Val b => Val (c + a * 2 + b) | _, _ => Val c end in
  let pin := {| s_kind := SMemento (Some 1); s_code := 7; s_defaults := 0; s_refs := [] |} in
  let var := {| s_kind := SVar (Some 5); s_code := 0; s_defaults := 0; s_refs := [] |} in
  let root := {| s_kind := SMemento None; s_code := 100; s_defaults := 0; s_refs := [1; 2] |} in
  let p := table [(1, pin); (2, var); (3, root)] in
  let q := table [(1, var); (2, pin); (3, root)] in
  version_input p true (collect p 16 3) = version_input q true (collect q 16 3) /\
  keyed_input p true (collect p 16 3) <> keyed_input q true (collect q 16 3) /\
  eval sem 4 p 3 <> eval sem 4 q 3.
Proof. split; [vm_compute; reflexivity|split; vm_compute; discriminate]. Qed.

(** ---- the store across editions ---- *)
Section MemoProofs.
Variable sem : nat -> nat -> (nat -> res) -> res.
Hypothesis sem_ext : forall c d e1 e2, (forall u, e1 u = e2 u) -> sem c d e1 = sem c d e2.
Variable V : Type.
Variable V_eqb : V -> V -> bool.
Hypothesis V_eqb_sound : forall a b, V_eqb a b = true -> a = b.
Variable ver : prog -> nat -> V.
Variable ok : prog -> nat -> Prop.
(** the one thing asked of versions: equal versions, equal behaviour *)
Hypothesis ver_sound : forall p q f, ok p f -> ok q f -> ver p f = ver q f -> forall n, eval sem n p f = eval sem n q f.

Definition good (p : prog) : Prop := dag p /\ forall t e, s_kind (p t) = SMemento e -> ok p t.

Lemma eval_fuel p : dag p -> forall n m t, t < n -> t < m -> eval sem n p t = eval sem m p t.
Proof.
  intros Hd. induction n as [|n IH]; intros m t Hn Hm; [lia|]. destruct m as [|m]; [lia|]. cbn [eval].
  assert (E : forall c d, sem c d (fun u => if is_ref p t u then eval sem n p u else Err)
                        = sem c d (fun u => if is_ref p t u then eval sem m p u else Err)).
  { intros c d. apply sem_ext. intros u. unfold is_ref. destruct (existsb (Nat.eqb u) (s_refs (p t))) eqn:E; [|reflexivity].
    apply existsb_exists in E as (z & Hz & Ez). apply Nat.eqb_eq in Ez. subst z. pose proof (Hd t u Hz). apply IH; lia. }
  destruct (s_kind (p t)) as [e|b|[v|]|]; auto.
Qed.

Definition Inv (st : store V) : Prop :=
  forall t v r, In ((t, v), r) st ->
  exists p' n, good p' /\ (exists e, s_kind (p' t) = SMemento e) /\ t < n /\ ver p' t = v /\ r = eval sem n p' t.

Lemma slookup_in t v st r : slookup V V_eqb t v st = Some r -> In ((t, v), r) st.
Proof.
  induction st as [|[[t' v'] r'] st IH]; simpl; [discriminate|].
  destruct (Nat.eqb t t' && V_eqb v v') eqn:E.
  - intros H. inversion H. subst. apply andb_true_iff in E as (E1 & E2). apply Nat.eqb_eq in E1. apply V_eqb_sound in E2. subst. auto.
  - intros H. right. auto.
Qed.

Lemma vlookup_spec (g : nat -> res) u vals : (forall u' r, In (u', r) vals -> r = g u') ->
  vlookup u vals = if existsb (Nat.eqb u) (map fst vals) then g u else Err.
Proof.
  induction vals as [|[u' r] vals IH]; intros H; simpl; [reflexivity|].
  destruct (Nat.eqb_spec u u') as [->|Hn]; simpl.
  - apply H. left. reflexivity.
  - apply IH. intros u'' r' Hin. apply H. right. exact Hin.
Qed.

Section Step.
Variable p : prog.
Hypothesis Hgood : good p.
Variable n : nat.
Hypothesis IHn : forall st t, Inv st -> t < n ->
  fst (meval sem V V_eqb ver n p st t) = eval sem n p t /\ Inv (snd (meval sem V V_eqb ver n p st t)).

Let F := (fun (acc : list (nat * res) * store V) u =>
            let '(r, s') := meval sem V V_eqb ver n p (snd acc) u in ((u, r) :: fst acc, s')).

Lemma fold_refs l : forall acc, Inv (snd acc) -> (forall u, In u l -> u < n) ->
  (forall u' r, In (u', r) (fst acc) -> r = eval sem n p u') ->
  Inv (snd (fold_left F l acc)) /\
  (forall u' r, In (u', r) (fst (fold_left F l acc)) -> r = eval sem n p u') /\
  (forall u, In u (map fst (fst (fold_left F l acc))) <-> In u l \/ In u (map fst (fst acc))).
Proof.
  induction l as [|u l IH]; intros acc Hi Hl Hv; simpl.
  - split; [exact Hi|]. split; [exact Hv|]. intros; tauto.
  - assert (Hu : u < n) by (apply Hl; left; reflexivity).
    destruct (IHn (snd acc) u Hi Hu) as (E1 & E2).
    assert (EF : F acc u = ((u, eval sem n p u) :: fst acc, snd (meval sem V V_eqb ver n p (snd acc) u))).
    { unfold F. destruct (meval sem V V_eqb ver n p (snd acc) u) as [r s'] eqn:Em. simpl in *. subst r. reflexivity. }
    rewrite EF.
    destruct (IH ((u, eval sem n p u) :: fst acc, snd (meval sem V V_eqb ver n p (snd acc) u))) as (A & B & C).
    + exact E2.
    + intros u' Hu'. apply Hl. right. exact Hu'.
    + simpl. intros u' r [H|H]; [inversion H; reflexivity|apply Hv; exact H].
    + split; [exact A|]. split; [exact B|]. intros u'. rewrite C. simpl. tauto.
Qed.

Lemma meval_step st t : Inv st -> t < S n ->
  fst (meval sem V V_eqb ver (S n) p st t) = eval sem (S n) p t /\ Inv (snd (meval sem V V_eqb ver (S n) p st t)).
Proof.
  intros Hi Ht. destruct Hgood as (Hd & Hok). cbn [meval eval]. fold F.
  assert (Hl : forall u, In u (s_refs (p t)) -> u < n) by (intros u Hu; pose proof (Hd t u Hu); lia).
  destruct (fold_refs (s_refs (p t)) ([], st) Hi Hl (fun u' r (H : In (u', r) []) => match H with end)) as (A & B & C).
  assert (Esem : forall c d, sem c d (fun u => vlookup u (fst (fold_left F (s_refs (p t)) ([], st))))
                           = sem c d (fun u => if is_ref p t u then eval sem n p u else Err)).
  { intros c d. apply sem_ext. intros u. rewrite (vlookup_spec (eval sem n p) u _ B). unfold is_ref.
    rewrite (existsb_iff _ (s_refs (p t)) u); [reflexivity|]. rewrite C. simpl. tauto. }
  destruct (s_kind (p t)) as [e|b|[v|]|] eqn:Ek; try (split; [reflexivity|exact Hi]).
  - destruct (slookup V V_eqb t (ver p t) st) as [r|] eqn:El.
    + simpl. split; [|exact Hi]. apply slookup_in in El. destruct (Hi _ _ _ El) as (p' & n' & (Hd' & Hok') & (e' & He') & Hn' & Hv & ->).
      rewrite (ver_sound p' p t (Hok' t e' He') (Hok t e Ek) Hv n').
      transitivity (eval sem (S n) p t); [apply eval_fuel; auto|cbn [eval]; rewrite Ek; reflexivity].
    + destruct (fold_left F (s_refs (p t)) ([], st)) as [vals st'] eqn:Ef. simpl in *. split; [apply Esem|].
      intros t' v' r' [H|H]; [|apply A; exact H]. inversion H; subst.
      exists p, (S n). split; [split; assumption|]. split; [eauto|]. split; [exact Ht|]. split; [reflexivity|].
      cbn [eval]. rewrite Ek. apply Esem.
  - destruct (fold_left F (s_refs (p t)) ([], st)) as [vals st'] eqn:Ef. simpl in *. split; [apply Esem|exact A].
Qed.
End Step.

Theorem meval_correct p : good p -> forall n st t, Inv st -> t < n ->
  fst (meval sem V V_eqb ver n p st t) = eval sem n p t /\ Inv (snd (meval sem V V_eqb ver n p st t)).
Proof.
  intros Hg. induction n as [|n IH]; intros st t Hi Ht; [lia|]. apply meval_step; auto.
Qed.

(** C01: for every history of editions and calls, against a store that persists, each call
    returns exactly what un-memoized execution of the current edition returns *)
Theorem history_never_stale h : (forall p f, In (p, f) h -> good p) -> forall st, Inv st ->
  run_history sem V V_eqb ver h st = map (fun pf => eval sem (S (snd pf)) (fst pf) (snd pf)) h.
Proof.
  induction h as [|[p f] h IH]; intros Hg st Hi; cbn [run_history map fst snd]; [reflexivity|].
  destruct (meval_correct p (Hg p f (or_introl eq_refl)) (S f) st f Hi (Nat.lt_succ_diag_r f)) as (E1 & E2).
  destruct (meval sem V V_eqb ver (S f) p st f) as [r st'] eqn:Em. cbn [fst snd] in E1, E2. subst r. f_equal.
  apply IH; [intros p' f' H; apply (Hg p' f'); right; exact H|exact E2].
Qed.

Lemma inv_empty : Inv [].
Proof. intros t v r []. Qed.

End MemoProofs.

(** the hypothesis on versions is met by the keyed digest input (any injective digest of it) *)
Lemma content_eqb_sound a b : content_eqb a b = true -> a = b.
Proof.
  destruct a as [[[x y] z]|], b as [[[x' y'] z']|]; simpl; intros H; try discriminate; [|reflexivity].
  apply andb_true_iff in H as (H & H3). apply andb_true_iff in H as (H1 & H2).
  apply Nat.eqb_eq in H1, H2, H3. subst. reflexivity.
Qed.

Lemma keyed_eqb_sound a : forall b, keyed_eqb a b = true -> a = b.
Proof.
  induction a as [|[r c] a IH]; intros [|[r' c'] b]; simpl; intros H; try discriminate; [reflexivity|].
  apply andb_true_iff in H as (H & H3). apply andb_true_iff in H as (H1 & H2).
  destruct (rule_eqb_spec r r') as [->|]; [|discriminate]. apply content_eqb_sound in H2. subst. f_equal. apply IH. exact H3.
Qed.

Definition ok_keyed (K : nat) (p : prog) (f : nat) : Prop :=
  s_kind (p f) = SMemento None /\ hashable p f /\ closed p (collect p K f) = true.

Theorem keyed_history_never_stale sem
  (sem_ext : forall c d e1 e2, (forall u, e1 u = e2 u) -> sem c d e1 = sem c d e2) K h :
  (forall p f, In (p, f) h -> dag p /\ forall t e, s_kind (p t) = SMemento e -> ok_keyed K p t) ->
  run_history sem _ keyed_eqb (fun p f => keyed_input p true (collect p K f)) h []
  = map (fun pf => eval sem (S (snd pf)) (fst pf) (snd pf)) h.
Proof.
  intros Hg.
  apply (history_never_stale sem sem_ext _ keyed_eqb keyed_eqb_sound _ (ok_keyed K)).
  - intros p q f (A1 & A2 & A3) (B1 & B2 & B3) Hv n.
    exact (same_keyed_same_result sem sem_ext p q f K K A1 B1 A2 B2 A3 B3 Hv n).
  - exact Hg.
  - apply inv_empty.
Qed.

(** ---- what is fed to sha256 is the concatenation of the rule hashes: it determines the list
    of rule hashes when all have one width, and does not otherwise ---- *)
Lemma app_same_length_inj {A} (s : list A) : forall s' r r', length s = length s' -> s ++ r = s' ++ r' -> s = s' /\ r = r'.
Proof.
  induction s as [|a s IH]; intros [|a' s'] r r' Hl E; simpl in *; try discriminate; [auto|].
  inversion E. subst. injection Hl as Hl. destruct (IH s' r r' Hl H1) as (-> & ->). auto.
Qed.

Lemma concat_fixed_inj {A} (w : nat) : 0 < w -> forall l l' : list (list A),
  Forall (fun s => length s = w) l -> Forall (fun s => length s = w) l' -> concat l = concat l' -> l = l'.
Proof.
  intros Hw. induction l as [|s l IH]; intros l' Hl Hl' E.
  - destruct l' as [|s' l']; [reflexivity|]. inversion Hl' as [|? ? Hs' _]; subst. simpl in E.
    destruct s'; simpl in *; [lia|discriminate].
  - destruct l' as [|s' l'].
    + inversion Hl as [|? ? Hs _]; subst. simpl in E. destruct s; simpl in *; [lia|discriminate].
    + inversion Hl as [|? ? Hs Hl1]; inversion Hl' as [|? ? Hs' Hl1']; subst. simpl in E.
      destruct (app_same_length_inj s s' _ _ (eq_sym Hs') E) as (-> & E'). f_equal. apply IH; auto.
Qed.

Lemma concat_variable_width_refuted :
  concat [[1]; [2; 3]] = concat [[1; 2]; [3]] /\ [[1]; [2; 3]] <> [[1; 2]; [3]].
Proof. split; [reflexivity|discriminate]. Qed.
