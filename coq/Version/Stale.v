(** Staleness (C01): what a call returns when results are memoized under (function, version)
    across editions of a program.

    Run-time behaviour is abstract: the value of a function is [sem code defaults env], any
    function of everything fn_code_hash hashes ([s_code]), of the default parameter values
    ([s_defaults]) and of the values of the names the body refers to. Programs are numbered
    topologically (a symbol refers to smaller ones), which stands for "recursion terminates":
    a symbol of the model is an invocation, not a def. *)
From Coq Require Import List Arith Bool NArith.
From Memento Require Import Codec.Json Version.Rules.
Import ListNotations.
Open Scope nat_scope.

Inductive res := Val (n : nat) | Err.

Definition res_eqb (a b : res) : bool :=
  match a, b with Val x, Val y => Nat.eqb x y | Err, Err => true | _, _ => false end.

Definition is_ref (p : prog) (t u : nat) : bool := existsb (Nat.eqb u) (s_refs (p t)).

Section Eval.
Variable sem : nat -> nat -> (nat -> res) -> res.

(** un-memoized execution of the current program *)
Fixpoint eval (fuel : nat) (p : prog) (t : nat) : res :=
  match fuel with
  | O => Err
  | S k =>
    match s_kind (p t) with
    | SMemento _ | SPlain _ =>
      sem (s_code (p t)) (s_defaults (p t)) (fun u => if is_ref p t u then eval k p u else Err)
    | SVar (Some v) => Val v
    | SVar None => Err
    | SUndef => Err
    end
  end.

(** memoized execution: every memento function consults the store under (symbol, version) *)
Section Memo.
Variable V : Type.
Variable V_eqb : V -> V -> bool.
Variable ver : prog -> nat -> V.

Definition store : Type := list ((nat * V) * res).

Fixpoint slookup (t : nat) (v : V) (st : store) : option res :=
  match st with
  | [] => None
  | ((t', v'), r) :: rest => if Nat.eqb t t' && V_eqb v v' then Some r else slookup t v rest
  end.

Fixpoint vlookup (u : nat) (vals : list (nat * res)) : res :=
  match vals with [] => Err | (u', r) :: rest => if Nat.eqb u u' then r else vlookup u rest end.

Fixpoint meval (fuel : nat) (p : prog) (st : store) (t : nat) : res * store :=
  match fuel with
  | O => (Err, st)
  | S k =>
    let refs_run st0 :=
      fold_left (fun acc u => let '(r, s') := meval k p (snd acc) u in ((u, r) :: fst acc, s'))
                (s_refs (p t)) ([], st0) in
    match s_kind (p t) with
    | SMemento _ =>
      match slookup t (ver p t) st with
      | Some r => (r, st)
      | None =>
        let '(vals, st') := refs_run st in
        let r := sem (s_code (p t)) (s_defaults (p t)) (fun u => vlookup u vals) in
        (r, ((t, ver p t), r) :: st')
      end
    | SPlain _ =>
      let '(vals, st') := refs_run st in
      (sem (s_code (p t)) (s_defaults (p t)) (fun u => vlookup u vals), st')
    | SVar (Some v) => (Val v, st)
    | SVar None => (Err, st)
    | SUndef => (Err, st)
    end
  end.

(** a history: editions of the program, each with one call; the store persists *)
Fixpoint run_history (h : list (prog * nat)) (st : store) : list res :=
  match h with
  | [] => []
  | (p, f) :: rest => let '(r, st') := meval (S f) p st f in r :: run_history rest st'
  end.

End Memo.
End Eval.

(** what identifies a version in the model: the rules in key order, each with what it hashes *)
Definition keyed_input (p : prog) (hd : bool) (rules : list rule) : list (rule * option (nat * nat * nat)) :=
  map (fun kr => (snd kr, rule_content p hd (snd kr))) (ordered_rules rules).

Definition hashable_sym (s : sym) : bool :=
  match s_kind s with SMemento None | SPlain true | SVar (Some _) | SUndef => true | _ => false end.

Definition dag (p : prog) : Prop := forall t u, In u (s_refs (p t)) -> u < t.

(** ---- correspondence support ---- *)
Definition content_eqb (a b : option (nat * nat * nat)) : bool :=
  match a, b with
  | None, None => true
  | Some (x, y, z), Some (x', y', z') => Nat.eqb x x' && Nat.eqb y y' && Nat.eqb z z'
  | _, _ => false
  end.

Fixpoint keyed_eqb (a b : list (rule * option (nat * nat * nat))) : bool :=
  match a, b with
  | [], [] => true
  | (r, c) :: a', (r', c') :: b' => rule_eqb r r' && content_eqb c c' && keyed_eqb a' b'
  | _, _ => false
  end.

(** two editions, a function, whether defaults are hashed, and whether the implementation
    reported the same version for both: None agree; Some 0 saturation not closed;
    Some 1 the model says "same version" but the implementation's differ;
    Some 2 the model says the version must differ but the implementation's are equal *)
Definition vers_case (c : list (nat * sym) * list (nat * sym) * nat * bool * bool) : option nat :=
  let '(tp, tq, f, hd, impl_same) := c in
  let p := table tp in let q := table tq in
  let cp := collect p (S (length tp) * 4) f in
  let cq := collect q (S (length tq) * 4) f in
  if negb (closed p cp && closed q cq) then Some 0
  else
    let same := keyed_eqb (keyed_input p hd cp) (keyed_input q hd cq) in
    if same && negb impl_same then Some 1
    else if negb same && impl_same then Some 2
    else None.
