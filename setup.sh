#!/bin/bash
# Build the Coq development from files on disk (offline). Full .vo build, no -vos.
set -e
cd "$(dirname "$0")"
PYTHONPATH=/verif /venv/bin/python -c "from harness import common as C; C.regenerate_source_facts()"
cd coq
coq_makefile -f _CoqProject -o Makefile >/dev/null
timeout 3000 make -k -j16 2>&1 | grep -v "conda.cli" | tail -40 || true
